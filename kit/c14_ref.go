// C14 shared reference: case model, text renderer, reference semantics and generator of the
// group-membership monitors (moved here from overlay/component/outbound/c14_filter_verif_test.go
// so that the part in package control judges with the same reference). Standard library only;
// written from the property statement and config/desc.go, independent of dae's filter code.
package verifkit

import (
	"fmt"
	"math/rand/v2"
	"regexp"
	"strconv"
	"strings"
	"time"
)

// ---- case model ------------------------------------------------------------

type C14Node struct {
	Name string `json:"name"`
	Tag  string `json:"subtag"`
}

type C14Val struct {
	Key  string `json:"key"` // "" exact, keyword, regex, or an invalid key
	Val  string `json:"val"`
	Sem  string `json:"sem,omitempty"` // regex only: re2 | notcontains | containsboth | dupadj | bad
	A    string `json:"a,omitempty"`   // operands of the hand-written regex templates
	B    string `json:"b,omitempty"`
	Bare bool   `json:"bare,omitempty"`
}

type C14Term struct {
	Input string   `json:"input"`
	Not   bool     `json:"not,omitempty"`
	Vals  []C14Val `json:"vals"`
}

type C14Anno struct {
	Key  string `json:"key"` // "" = bare value without key
	Val  string `json:"val"`
	Bare bool   `json:"bare,omitempty"`
}

type C14Line struct {
	Terms []C14Term `json:"terms"`
	Anno  []C14Anno `json:"anno,omitempty"` // nil = no [..] at all
}

type C14Case struct {
	Pool   []C14Node `json:"pool"`
	Lines  []C14Line `json:"lines"`
	Policy string    `json:"policy"` // verbatim text after "policy: "
}

func (c *C14Case) Clone() *C14Case {
	q := &C14Case{Policy: c.Policy, Pool: append([]C14Node(nil), c.Pool...)}
	for _, l := range c.Lines {
		nl := C14Line{}
		if l.Anno != nil {
			nl.Anno = append([]C14Anno{}, l.Anno...)
		}
		for _, t := range l.Terms {
			nl.Terms = append(nl.Terms, C14Term{Input: t.Input, Not: t.Not, Vals: append([]C14Val(nil), t.Vals...)})
		}
		q.Lines = append(q.Lines, nl)
	}
	return q
}

var C14BareRe = regexp.MustCompile(`^[-+]?[A-Za-z0-9_][A-Za-z0-9_.]*$`)

// C14QuoteWith renders s inside quote character q the way the lexer reads it:
// a quote character directly after a backslash never terminates the literal
// (and nothing is unescaped: both characters stay in the value), so s is
// representable with q iff every q in s follows a backslash and s does not
// end with a backslash.
func C14QuoteWith(s string, q byte) (string, bool) {
	if strings.HasSuffix(s, "\\") {
		return "", false
	}
	for i := 0; i < len(s); i++ {
		if s[i] == q && (i == 0 || s[i-1] != '\\') {
			return "", false
		}
	}
	return string(q) + s + string(q), true
}

func C14Quote(s string, bare bool) string {
	if bare && C14BareRe.MatchString(s) {
		return s
	}
	if t, ok := C14QuoteWith(s, '\''); ok {
		return t
	}
	t, _ := C14QuoteWith(s, '"')
	return t
}

// representable: some quoting of s is read back as exactly s.
func C14Representable(s string) bool {
	if strings.ContainsAny(s, "\n\r") {
		return false
	}
	_, ok1 := C14QuoteWith(s, '\'')
	_, ok2 := C14QuoteWith(s, '"')
	return ok1 || ok2
}

func (l *C14Line) Text() string {
	var ts []string
	for _, t := range l.Terms {
		var vs []string
		for _, v := range t.Vals {
			s := C14Quote(v.Val, v.Bare)
			if v.Key != "" {
				s = v.Key + ": " + s
			}
			vs = append(vs, s)
		}
		n := ""
		if t.Not {
			n = "!"
		}
		ts = append(ts, n+t.Input+"("+strings.Join(vs, ", ")+")")
	}
	s := "filter: " + strings.Join(ts, " && ")
	if l.Anno != nil {
		var as []string
		for _, a := range l.Anno {
			v := C14Quote(a.Val, a.Bare)
			if a.Key != "" {
				v = a.Key + ": " + v
			}
			as = append(as, v)
		}
		s += " [" + strings.Join(as, ", ") + "]"
	}
	return s
}

func (c *C14Case) GroupText() string {
	var b strings.Builder
	b.WriteString("global {}\nrouting {\n    fallback: direct\n}\ngroup {\n    g {\n")
	for i := range c.Lines {
		b.WriteString("        " + c.Lines[i].Text() + "\n")
	}
	b.WriteString("        policy: " + c.Policy + "\n    }\n}\n")
	return b.String()
}

// ---- reference semantics (from the statement and config/desc.go) ------------

func C14ValInvalid(input string, v *C14Val) string {
	switch input {
	case "name":
		if v.Key != "" && v.Key != "keyword" && v.Key != "regex" {
			return "unknown_key"
		}
	case "subtag":
		if v.Key != "" && v.Key != "regex" {
			return "unknown_key"
		}
	}
	if v.Key == "regex" && v.Sem == "bad" {
		return "bad_regex"
	}
	return ""
}

func C14AnnoInvalid(a []C14Anno) string {
	for _, p := range a {
		if p.Key != "add_latency" {
			return "anno_unknown_key"
		}
		if _, err := time.ParseDuration(p.Val); err != nil {
			return "anno_malformed"
		}
	}
	return ""
}

var C14ReCache = map[string]*regexp.Regexp{}

func C14Match(field string, v *C14Val) bool {
	switch v.Key {
	case "":
		return field == v.Val
	case "keyword":
		return strings.Contains(field, v.Val)
	case "regex":
		switch v.Sem {
		case "re2":
			re := C14ReCache[v.Val]
			if re == nil {
				re = regexp.MustCompile(v.Val)
				C14ReCache[v.Val] = re
			}
			return re.MatchString(field)
		case "notcontains":
			return !strings.Contains(field, v.A)
		case "containsboth":
			return strings.Contains(field, v.A) && strings.Contains(field, v.B)
		case "dupadj":
			rs := []rune(field)
			for i := 1; i < len(rs); i++ {
				if rs[i] == rs[i-1] {
					return true
				}
			}
			return false
		}
	}
	panic("C14Match on invalid value")
}

func C14Field(n C14Node, input string) string {
	if input == "subtag" {
		return n.Tag
	}
	return n.Name
}

type C14Expect struct {
	Invalid      string // first invalidity class in text order ("" = valid definition)
	InvalidAll   []string
	Members      []int           // pool indices, valid definitions only
	Offsets      []time.Duration // per member
	OffsetJudged []bool          // false: duplicated add_latency whose first value is zero (statement silent)
	WinLine      []int           // per member
	// classification help for accepted-invalid definitions: would a strict
	// left-to-right short-circuit evaluation touch an invalid element?
	Reached bool
	Causes  map[string]int
}

// C14PolicyExpect: ok=false -> must be rejected; judged=false -> statement silent.
func C14PolicyExpect(p string) (name string, idx int, ok bool) {
	s := strings.TrimSpace(p)
	if len(s) >= 2 && (s[0] == '\'' || s[0] == '"') && s[len(s)-1] == s[0] {
		// a quoted value is a plain string: only the parameterless names fit
		switch s[1 : len(s)-1] {
		case "random", "min", "min_avg10", "min_moving_avg":
			return s[1 : len(s)-1], 0, true
		}
		return "", 0, false
	}
	switch s {
	case "random", "min", "min_avg10", "min_moving_avg":
		return s, 0, true
	}
	if strings.HasPrefix(s, "fixed(") && strings.HasSuffix(s, ")") {
		arg := strings.TrimSpace(s[len("fixed(") : len(s)-1])
		if len(arg) >= 2 && (arg[0] == '\'' || arg[0] == '"') && arg[len(arg)-1] == arg[0] {
			arg = arg[1 : len(arg)-1]
		}
		if n, err := strconv.Atoi(arg); err == nil {
			return "fixed", n, true
		}
	}
	return "", 0, false
}

func C14Reference(c *C14Case) *C14Expect {
	e := &C14Expect{Causes: map[string]int{}}
	add := func(cl string) {
		if cl != "" {
			if e.Invalid == "" {
				e.Invalid = cl
			}
			e.InvalidAll = append(e.InvalidAll, cl)
		}
	}
	for li := range c.Lines {
		l := &c.Lines[li]
		for ti := range l.Terms {
			t := &l.Terms[ti]
			if t.Input != "name" && t.Input != "subtag" {
				add("unknown_input")
				continue
			}
			for vi := range t.Vals {
				add(C14ValInvalid(t.Input, &t.Vals[vi]))
			}
		}
		add(C14AnnoInvalid(l.Anno))
	}
	if _, _, ok := C14PolicyExpect(c.Policy); !ok {
		add("bad_policy")
		e.Reached = true // the policy is looked at unconditionally
		return e
	}
	if e.Invalid != "" {
		// classification only (never a verdict): which invalid elements would a
		// short-circuit evaluation in text order touch?
		if len(c.Pool) == 0 {
			e.Causes["empty_pool"]++
		}
		for _, n := range c.Pool {
		nextLine:
			for li := range c.Lines {
				l := &c.Lines[li]
				for ti := range l.Terms {
					t := &l.Terms[ti]
					if t.Input != "name" && t.Input != "subtag" {
						e.Reached = true
						return e
					}
					hit := false
					for vi := range t.Vals {
						if C14ValInvalid(t.Input, &t.Vals[vi]) != "" {
							e.Reached = true
							return e
						}
						if C14Match(C14Field(n, t.Input), &t.Vals[vi]) {
							hit = true
							if vi < len(t.Vals)-1 {
								e.Causes["after_hitting_alternative"]++
							}
							break
						}
					}
					if hit == t.Not {
						if ti < len(l.Terms)-1 {
							e.Causes["after_failing_term"]++
						}
						continue nextLine
					}
				}
				if C14AnnoInvalid(l.Anno) != "" {
					e.Reached = true
					return e
				}
				if li < len(c.Lines)-1 {
					e.Causes["after_hitting_line"]++
				}
				break
			}
		}
		for li := range c.Lines {
			if C14AnnoInvalid(c.Lines[li].Anno) != "" {
				e.Causes["annotation_on_line_no_node_hits_first"]++
			}
		}
		return e
	}
	// valid definition: the set comprehension.
	for i, n := range c.Pool {
		if len(c.Lines) == 0 {
			e.Members = append(e.Members, i)
			e.Offsets = append(e.Offsets, 0)
			e.OffsetJudged = append(e.OffsetJudged, true)
			e.WinLine = append(e.WinLine, -1)
			continue
		}
		for li := range c.Lines {
			l := &c.Lines[li]
			all := true
			for ti := range l.Terms {
				t := &l.Terms[ti]
				any := false
				for vi := range t.Vals {
					if C14Match(C14Field(n, t.Input), &t.Vals[vi]) {
						any = true
					}
				}
				if any == t.Not {
					all = false
				}
			}
			if !all {
				continue
			}
			var off time.Duration
			judged := true
			if len(l.Anno) > 0 {
				off, _ = time.ParseDuration(l.Anno[0].Val)
				if off == 0 {
					for _, a := range l.Anno[1:] {
						if d, _ := time.ParseDuration(a.Val); d != 0 {
							judged = false // "[add_latency: 0s, add_latency: 5ms]": statement silent
						}
					}
				}
			}
			e.Members = append(e.Members, i)
			e.Offsets = append(e.Offsets, off)
			e.OffsetJudged = append(e.OffsetJudged, judged)
			e.WinLine = append(e.WinLine, li)
			break
		}
	}
	return e
}

// ---- generator -------------------------------------------------------------

var C14Names = []string{
	"", "a", "A", "ab", "a.b", "a+b", "a|b", "(x)", "[hk]", "HK 01", "hk", "HK", "HK-02", "香港-1", "香港", "🇭🇰 HK",
	"x*", "^a$", `a\b`, "sg", "SG|HK", "Disney HK", "ExpireAt: 2030", "a'b", `a"b`, `'"`, "  ", "\t", "aa", "日本 JP", "JP", "$", ".", "a:b", "a#b", "a,b", "name", "(", "!a",
}
var C14Tags = []string{"", "", "my_sub", "my_sub2", "sub.1", "Sub", "订阅", "a", "HK", "my sub", "^my_"}

var C14BadRegex = []string{"(", "[a", "*a", "a{2,1}", "a)", "(?P<n", "[z-a]", "a**", "+", `\p{Foo}`, `\k<n>`, `\1`}
var C14BadInputs = []string{"foo", "link", "Name", "tag", "subtag2", "names", "SUBTAG"}
var C14BadNameKeys = []string{"regexp", "Keyword", "contains", "prefix", "kyword", "REGEX"}
var C14BadTagKeys = []string{"keyword", "Regex", "prefix", "contains"}
var C14BadAnnoKeys = []string{"latency", "add_latency_ms", "Add_Latency", "", "addlatency", "weight"}
var C14BadDur = []string{"500", "abc", "5 ms", "ms", "1.5.5s", "", "--5ms", "5msec", "1,5s"}
var C14GoodDur = []string{"-500ms", "1s", "0", "0s", "100us", "1.5s", "+3ms", "1h2m", "-1ns", "50ms", "1µs", "999h"}
var C14BadPolicy = []string{"min_avg", "Random", "fixed", "fixed(a)", "fixed(1,2)", "fixed(idx: 1)", "fixed(1.0)", "fixed(0x1)", "least",
	"min_moving_average", "fixed('')", "MIN", "min10", "fixed(1e0)", "fixed(１)", "'fixed(0)'", "fixed(0, 0)", "fixed(min)"}

type C14Gen struct {
	r *rand.Rand
}

func (g *C14Gen) pick(l []string) string { return l[g.r.IntN(len(l))] }

func (g *C14Gen) pool() []C14Node {
	n := g.r.IntN(13)
	// a small sub-alphabet per case makes duplicates and near-misses frequent
	sub := make([]string, 1+g.r.IntN(6))
	for i := range sub {
		sub[i] = g.pick(C14Names)
	}
	tags := make([]string, 1+g.r.IntN(3))
	for i := range tags {
		tags[i] = g.pick(C14Tags)
	}
	p := make([]C14Node, n)
	for i := range p {
		p[i] = C14Node{Name: g.pick(sub), Tag: g.pick(tags)}
		if g.r.IntN(5) == 0 {
			p[i].Name = g.pick(C14Names)
		}
	}
	return p
}

func (g *C14Gen) fieldSample(pool []C14Node, input string) string {
	if len(pool) > 0 && g.r.IntN(4) != 0 {
		n := pool[g.r.IntN(len(pool))]
		return C14Field(n, input)
	}
	if input == "subtag" {
		return g.pick(C14Tags)
	}
	return g.pick(C14Names)
}

func (g *C14Gen) substr(s string) string {
	rs := []rune(s)
	if len(rs) == 0 {
		return ""
	}
	i := g.r.IntN(len(rs))
	j := i + 1 + g.r.IntN(len(rs)-i)
	return string(rs[i:j])
}

func (g *C14Gen) regex(pool []C14Node, input string) C14Val {
	v := C14Val{Key: "regex", Sem: "re2"}
	lit := func() string { return regexp.QuoteMeta(g.substr(g.fieldSample(pool, input))) }
	switch g.r.IntN(12) {
	case 0:
		v.Val = "^" + regexp.QuoteMeta(g.fieldSample(pool, input)) + "$"
	case 1:
		v.Val = lit()
	case 2:
		v.Val = "^" + lit()
	case 3:
		v.Val = lit() + "$"
	case 4:
		v.Val = lit() + "|" + lit()
	case 5:
		v.Val = "^(" + lit() + "|" + lit() + ").*$"
	case 6:
		v.Val = "^.*" + lit() + ".+$"
	case 7:
		v.Val = "[" + g.pick([]string{"a-c", "A-Z", "0-9", "hkHK", "^a", "^ -~"}) + "]" + g.pick([]string{"", "+", "*", "?", "{2}"})
	case 8:
		v.Val = "(?i)" + g.pick([]string{"hk", "A", "sg|jp", "^a", "disney", "b$"})
	case 9:
		a := g.substr(g.fieldSample(pool, input))
		v.Sem, v.A, v.Val = "notcontains", a, "^(?!.*"+regexp.QuoteMeta(a)+")"
	case 10:
		a, b := g.substr(g.fieldSample(pool, input)), g.substr(g.fieldSample(pool, input))
		v.Sem, v.A, v.B, v.Val = "containsboth", a, b, "^(?=.*"+regexp.QuoteMeta(a)+")(?=.*"+regexp.QuoteMeta(b)+")"
	case 11:
		v.Sem, v.Val = "dupadj", `(.)\1`
	}
	if v.Sem == "re2" {
		if _, err := regexp.Compile(v.Val); err != nil {
			v.Val = "^$"
		}
	}
	return v
}

func (g *C14Gen) val(pool []C14Node, input string) C14Val {
	var v C14Val
	k := g.r.IntN(10)
	switch {
	case k < 4:
		v = C14Val{Key: "", Val: g.fieldSample(pool, input)}
	case k < 7 && input == "name":
		v = C14Val{Key: "keyword", Val: g.substr(g.fieldSample(pool, input))}
		if g.r.IntN(12) == 0 {
			v.Val = ""
		}
	default:
		v = g.regex(pool, input)
	}
	if !C14Representable(v.Val) {
		v = C14Val{Key: "", Val: "a"}
	}
	v.Bare = g.r.IntN(2) == 0
	return v
}

func (g *C14Gen) Gen() *C14Case { return g.genOver(g.pool(), 30) }

// genOver generates one group definition over a given pool; injectPct = chance (in %) that
// invalid elements are injected.
func (g *C14Gen) genOver(pool []C14Node, injectPct int) *C14Case {
	c := &C14Case{Pool: pool}
	nl := 0
	if g.r.IntN(10) != 0 {
		nl = 1 + g.r.IntN(4)
	}
	for i := 0; i < nl; i++ {
		var l C14Line
		if i > 0 && g.r.IntN(6) == 0 {
			// a near-copy of the previous line: same functions, one value (preferably a late one of
			// a long list) exchanged; whatever is remembered about the earlier line must not be
			// taken for this one
			prev := c.Lines[i-1]
			for _, t := range prev.Terms {
				nt := C14Term{Input: t.Input, Not: t.Not, Vals: append([]C14Val(nil), t.Vals...)}
				l.Terms = append(l.Terms, nt)
			}
			t := &l.Terms[g.r.IntN(len(l.Terms))]
			k := len(t.Vals) - 1
			if g.r.IntN(4) == 0 {
				k = g.r.IntN(len(t.Vals))
			}
			t.Vals[k] = g.val(c.Pool, t.Input)
			l.Anno = []C14Anno{{Key: "add_latency", Val: g.pick(C14GoodDur), Bare: g.r.IntN(2) == 0}}
			c.Lines = append(c.Lines, l)
			continue
		}
		nt := 1 + g.r.IntN(3)
		for j := 0; j < nt; j++ {
			t := C14Term{Input: "name", Not: g.r.IntN(10) < 3}
			if g.r.IntN(10) < 3 {
				t.Input = "subtag"
			}
			nv := 1 + g.r.IntN(3)
			if g.r.IntN(8) == 0 {
				nv = 5 + g.r.IntN(5) // long alternatives lists
			}
			for k := 0; k < nv; k++ {
				t.Vals = append(t.Vals, g.val(c.Pool, t.Input))
			}
			l.Terms = append(l.Terms, t)
		}
		switch g.r.IntN(10) {
		case 0, 1, 2, 3:
			l.Anno = []C14Anno{{Key: "add_latency", Val: g.pick(C14GoodDur), Bare: g.r.IntN(2) == 0}}
		case 4:
			l.Anno = []C14Anno{{Key: "add_latency", Val: g.pick(C14GoodDur), Bare: true}, {Key: "add_latency", Val: g.pick(C14GoodDur)}}
		}
		c.Lines = append(c.Lines, l)
	}
	switch g.r.IntN(7) {
	case 0:
		c.Policy = "random"
	case 1:
		c.Policy = "min"
	case 2:
		c.Policy = "min_avg10"
	case 3:
		c.Policy = "min_moving_avg"
	case 4:
		c.Policy = g.pick([]string{"'min'", `"random"`, "fixed('2')", "fixed( 1 )", "fixed(+1)", "fixed(-1)", "fixed(007)"})
	default:
		c.Policy = fmt.Sprintf("fixed(%d)", g.r.IntN(len(c.Pool)+3)-1)
	}
	// inject invalid elements
	if g.r.IntN(100) < injectPct {
		k := 1
		if g.r.IntN(10) == 0 {
			k = 2
		}
		for ; k > 0; k-- {
			g.inject(c)
		}
	}
	return c
}

func (g *C14Gen) inject(c *C14Case) {
	kind := g.r.IntN(7)
	if len(c.Lines) == 0 && kind < 6 {
		if g.r.IntN(2) == 0 {
			kind = 6
		} else {
			c.Lines = append(c.Lines, C14Line{Terms: []C14Term{{Input: "name", Vals: []C14Val{g.val(c.Pool, "name")}}}})
		}
	}
	if kind == 6 {
		c.Policy = g.pick(C14BadPolicy)
		return
	}
	l := &c.Lines[g.r.IntN(len(c.Lines))]
	t := &l.Terms[g.r.IntN(len(l.Terms))]
	insertVal := func(v C14Val) {
		// bias to late positions so that both eager and lazily skipped placements occur
		pos := g.r.IntN(len(t.Vals) + 1)
		if g.r.IntN(2) == 0 {
			pos = len(t.Vals)
		}
		t.Vals = append(t.Vals[:pos], append([]C14Val{v}, t.Vals[pos:]...)...)
	}
	switch kind {
	case 0:
		t.Input = g.pick(C14BadInputs)
	case 1:
		if t.Input == "subtag" {
			insertVal(C14Val{Key: g.pick(C14BadTagKeys), Val: g.fieldSample(c.Pool, "subtag")})
		} else {
			insertVal(C14Val{Key: g.pick(C14BadNameKeys), Val: g.fieldSample(c.Pool, "name")})
		}
		for i := range t.Vals {
			if !C14Representable(t.Vals[i].Val) {
				t.Vals[i].Val = "x"
			}
		}
	case 2:
		insertVal(C14Val{Key: "regex", Val: g.pick(C14BadRegex), Sem: "bad"})
	case 3:
		// subtag(keyword: ...) — the documented asymmetry
		nt := C14Term{Input: "subtag", Not: g.r.IntN(3) == 0, Vals: []C14Val{{Key: "keyword", Val: g.pick([]string{"my", "sub", "x"}), Bare: true}}}
		pos := g.r.IntN(len(l.Terms) + 1)
		l.Terms = append(l.Terms[:pos], append([]C14Term{nt}, l.Terms[pos:]...)...)
	case 4:
		k := g.pick(C14BadAnnoKeys)
		a := C14Anno{Key: k, Val: g.pick(C14GoodDur), Bare: true}
		if g.r.IntN(2) == 0 && l.Anno != nil {
			l.Anno = append(l.Anno, a)
		} else {
			l.Anno = []C14Anno{a}
		}
	case 5:
		a := C14Anno{Key: "add_latency", Val: g.pick(C14BadDur)}
		if g.r.IntN(2) == 0 && l.Anno != nil {
			l.Anno = append(l.Anno, a)
		} else {
			l.Anno = []C14Anno{a}
		}
	}
}

func NewC14Gen(r *rand.Rand) *C14Gen { return &C14Gen{r: r} }
