package verifkit

// C17, class "spell": configurations that COMBINE spellings the documentation
// calls equivalent, or that the stage between the decoded sections and the
// typed configuration (config.New's patch list and the defaults) rewrites:
//
//   outbound   `must_X` == `X(must)`  (docs/en/configuration/routing.md) crossed
//              with the other outbound parameter (`mark:`), the order of the
//              parameters, the position of the rule, and the fallback written
//              as bare name / quoted string / function; `must_rules` reserved;
//   global     tcp_check_http_method written / absent ('HEAD' by default,
//              example.dae) / not an HTTP method; bootstrap_resolver written
//              (ipv4:port, [ipv6]:port; example.dae) / absent / malformed;
//   dns        section absent / empty / without routing / request only /
//              response only / both (example.dae ships the response part
//              commented out), fallbacks bare or quoted.
//
// The expectation is computed from the AST the text is rendered from
// (RoutingSpelled, SpellMeta); nothing here calls dae. Standard library only.

import (
	"math/rand/v2"
	"strconv"
	"strings"
)

// ---- what a written outbound spells ---------------------------------------------

// OutSpelled is the documented reading of one written outbound:
// `must_X(p...)` is `X(must, p...)`; every other written parameter is kept, in
// written order. (Where the `must` flag sits among the parameters is not
// specified, so it is a flag here, not a position.)
type OutSpelled struct {
	Name   string
	Must   bool
	Params []CPar // written parameters other than the keyless `must`
	Class  string // spelling class: <plain|must_|must_rules>:<none|mark|must|mark+must|must+mark|...>
}

func SpellOut(f CFn, bare bool) OutSpelled {
	o := OutSpelled{Name: f.Name}
	prefix := "plain"
	switch {
	case f.Name == "must_rules":
		prefix = "must_rules"
	case strings.HasPrefix(f.Name, "must_"):
		prefix = "must_"
		o.Name = strings.TrimPrefix(f.Name, "must_")
		o.Must = true
	}
	var kinds []string
	if !bare {
		for _, p := range f.Pars {
			if p.Key == "" && p.L.V == "must" {
				o.Must = true
				kinds = append(kinds, "must")
				continue
			}
			o.Params = append(o.Params, p)
			if p.Key != "" {
				kinds = append(kinds, p.Key)
			} else {
				kinds = append(kinds, "value")
			}
		}
	}
	if len(kinds) == 0 {
		kinds = []string{"none"}
	}
	if len(kinds) > 3 {
		kinds = append(kinds[:3], "more")
	}
	o.Class = prefix + ":" + strings.Join(kinds, "+")
	return o
}

// View renders the reading in the format the monitor's child uses for dae's
// typed outbound (name, must flag, remaining parameters in order).
func (o OutSpelled) View() string {
	return strconv.Quote(o.Name) + " must=" + strconv.FormatBool(o.Must) + " (" + dumpPars(o.Params) + ")"
}

// Mark: numeric value of the written `mark:` parameter (0 when none is written).
func (o OutSpelled) Mark() (uint32, bool) {
	var mark uint32
	for _, p := range o.Params {
		if p.Key == "mark" {
			v, err := strconv.ParseUint(p.L.V, 0, 32)
			if err != nil {
				return 0, false
			}
			mark = uint32(v)
		}
	}
	return mark, true
}

// RuleSpelled is one written routing rule.
type RuleSpelled struct {
	Conds string // canonical dump of the written conditions
	Out   OutSpelled
}

// RoutingSpelled reads the top-level routing section of a document: its rules
// in written order and its fallback (nil when none is written).
func RoutingSpelled(d *CDoc) (rules []RuleSpelled, fallback *OutSpelled) {
	rt := d.Find("routing")
	if rt == nil {
		return nil, nil
	}
	for _, it := range rt.Items {
		switch {
		case it.Kind == CRule:
			rules = append(rules, RuleSpelled{Conds: dumpFns(it.Conds), Out: SpellOut(it.Out, it.OutBare)})
		case it.Kind == CDecl && it.Key == "fallback" && len(it.Lits) == 1:
			o := SpellOut(CFn{Name: it.Lits[0].V}, true)
			if it.Lits[0].Q != 0 {
				o.Class += ":quoted"
			}
			fallback = &o
		case it.Kind == CDeclFn && it.Key == "fallback" && len(it.Fns) == 1:
			o := SpellOut(it.Fns[0], false)
			fallback = &o
		}
	}
	return
}

// ---- generator --------------------------------------------------------------------

// SpellProbe: a packet description (TCP/IPv4, destination port Port) that exactly
// one written rule matches (Rule >= 0), or none (Rule == -1 => fallback).
type SpellProbe struct {
	Port int
	Rule int
}

type SpellMeta struct {
	Cfg     *CfgMeta
	Classes []string // combination classes this document exercises
	Probes  []SpellProbe
	// tcp_check_http_method / bootstrap_resolver: "absent" | "valid" | "invalid"
	Method, MethodVal       string
	Bootstrap, BootstrapVal string
	// dns: fallbacks as written ("" = not written)
	DnsShape        string
	DnsReq, DnsResp string
	// the text uses a value the documentation does not cover (malformed
	// bootstrap_resolver): an error from config.New is as good as acceptance
	MayRejectNew bool
}

var (
	spellPrefixes = []string{"plain", "must_"}
	spellParams   = []string{"none", "mark", "must", "mark+must", "must+mark"}
	spellPos      = []string{"first", "mid", "last", "fallback"}
	spellMethods  = []string{"GET", "POST", "PUT", "PATCH", "DELETE", "COPY", "HEAD", "OPTIONS", "LINK", "UNLINK", "PURGE", "LOCK", "UNLOCK", "PROPFIND", "CONNECT", "TRACE"}
	spellBadMeth  = []string{"head", "FETCH", "Get", "CONNECT2"}
	spellBoot     = map[string][]string{
		"valid4":  {"9.9.9.9:53", "223.5.5.5:53", "1.1.1.1:5353"},
		"valid6":  {"[2620:fe::fe]:53", "[2001:4860:4860::8888]:53"},
		"invalid": {"9.9.9.9", "dns.google:53", "2620:fe::fe", ":53"},
	}
	spellDns   = []string{"absent", "empty-section", "no-routing", "request-only", "response-only", "both"}
	spellMarks = []string{"0x30", "48", "0x800", "1", "0xffffffff", "4294967295", "0x80000000", "255", "0"}
	spellGrps  = []string{"g0", "g1", "my_group"}
)

// SpellClasses lists every combination class GenSpellDoc can be asked for; document
// number i is built around class i mod len.
func SpellClasses() []string {
	var l []string
	for _, p := range spellPrefixes {
		for _, q := range spellParams {
			for _, pos := range spellPos {
				l = append(l, "mustout:"+p+":"+q+":"+pos)
			}
		}
		l = append(l, "fbform:"+p+":bare", "fbform:"+p+":quoted")
	}
	l = append(l, "fbform:absent", "must_rules:first", "must_rules:mid", "must_rules:last")
	for _, s := range []string{"absent", "valid", "invalid"} {
		l = append(l, "method:"+s)
	}
	for _, s := range []string{"absent", "valid4", "valid6", "invalid"} {
		l = append(l, "bootstrap:"+s)
	}
	for _, s := range spellDns {
		l = append(l, "emptydns:"+s)
	}
	return l
}

type spellOut struct {
	prefix, params, name, mark string
	mustRules                  bool
}

func (s spellOut) fn(r *rand.Rand) (CFn, bool) {
	if s.mustRules {
		return CFn{Name: "must_rules"}, true
	}
	f := CFn{Name: s.name}
	if s.prefix == "must_" {
		f.Name = "must_" + s.name
	}
	if s.params == "none" {
		return f, true
	}
	for _, k := range strings.Split(s.params, "+") {
		if k == "mark" {
			f.Pars = append(f.Pars, CPar{Key: "mark", L: MkLit(r, s.mark, false)})
		} else {
			f.Pars = append(f.Pars, CPar{L: CLit{V: "must"}})
		}
	}
	return f, false
}

func spellRandOut(r *rand.Rand, allowMustRules bool) spellOut {
	names := append([]string{"direct", "block"}, spellGrps...)
	s := spellOut{prefix: cpick(r, spellPrefixes), params: cpick(r, spellParams), name: cpick(r, names), mark: cpick(r, spellMarks)}
	if allowMustRules && r.IntN(10) == 0 {
		s.mustRules = true
	}
	return s
}

func spellPosOf(i, n int) string {
	switch {
	case i == 0:
		return "first"
	case i == n-1:
		return "last"
	}
	return "mid"
}

// GenSpellDoc builds document number idx around combination class idx mod len(SpellClasses()).
func GenSpellDoc(r *rand.Rand, idx int) (*CDoc, *SpellMeta) {
	all := SpellClasses()
	forced := strings.Split(all[idx%len(all)], ":")

	// ---- plan: random everywhere, then the forced class is written in
	n := 1 + r.IntN(5)
	fbForm := "written"
	if r.IntN(8) == 0 {
		fbForm = "absent"
	}
	method := []string{"absent", "valid", "valid", "invalid"}[r.IntN(4)]
	boot := []string{"absent", "absent", "valid4", "valid6", "invalid"}[r.IntN(5)]
	if boot == "invalid" && r.IntN(3) != 0 {
		boot = "absent" // a malformed value may be refused as a whole: keep those documents few
	}
	dnsShape := cpick(r, spellDns)
	forcePos, forceOut := "", spellOut{}
	switch forced[0] {
	case "mustout":
		forcePos = forced[3]
		forceOut = spellRandOut(r, false)
		forceOut.prefix, forceOut.params = forced[1], forced[2]
	case "fbform":
		if forced[1] == "absent" {
			fbForm = "absent"
		} else {
			forcePos = "fallback"
			forceOut = spellRandOut(r, false)
			forceOut.prefix, forceOut.params = forced[1], "none"
			fbForm = forced[2]
		}
	case "must_rules":
		forcePos = forced[1]
		forceOut = spellOut{mustRules: true}
	case "method":
		method = forced[1]
	case "bootstrap":
		boot = forced[1]
	case "emptydns":
		dnsShape = forced[1]
	}
	switch forcePos {
	case "mid":
		if n < 3 {
			n = 3 + r.IntN(3)
		}
	case "last":
		if n < 2 {
			n = 2 + r.IntN(4)
		}
	case "fallback":
		if fbForm == "absent" {
			fbForm = "written"
		}
	}
	outs := make([]spellOut, n)
	for i := range outs {
		outs[i] = spellRandOut(r, true)
	}
	fb := spellRandOut(r, false)
	switch forcePos {
	case "first":
		outs[0] = forceOut
	case "last":
		outs[n-1] = forceOut
	case "mid":
		outs[1+r.IntN(n-2)] = forceOut
	case "fallback":
		fb = forceOut
	}

	d := &CDoc{}
	cm := &CfgMeta{Global: map[string]string{}}
	m := &SpellMeta{Cfg: cm, Method: method, Bootstrap: boot, DnsShape: dnsShape}
	class := func(c string) { m.Classes = append(m.Classes, c) }

	// ---- global: a few ordinary keys around the patched ones
	g := &CSec{Name: "global"}
	for _, i := range r.Perm(len(cGlobalKeys))[:r.IntN(4)] {
		k := cGlobalKeys[i]
		if k.key == "tcp_check_http_method" {
			continue
		}
		v := k.vals[r.IntN(len(k.vals))]
		g.Items = append(g.Items, declLit(r, k.key, v))
		cm.Global[k.key] = v
	}
	switch method {
	case "valid":
		m.MethodVal = cpick(r, spellMethods)
		cm.Global["tcp_check_http_method"] = m.MethodVal
		g.insert(r, declLit(r, "tcp_check_http_method", m.MethodVal))
	case "invalid":
		m.MethodVal = cpick(r, spellBadMeth)
		g.insert(r, declLit(r, "tcp_check_http_method", m.MethodVal))
	}
	class("method:" + method)
	if boot != "absent" {
		m.BootstrapVal = cpick(r, spellBoot[boot])
		g.insert(r, &CItem{Kind: CDecl, Key: "bootstrap_resolver", Lits: []CLit{MkLit(r, m.BootstrapVal, true)}})
		m.MayRejectNew = boot == "invalid"
	}
	class("bootstrap:" + boot)

	// ---- groups
	grp := &CSec{Name: "group"}
	for _, name := range spellGrps {
		gs := &CSec{Name: name}
		gs.Items = append(gs.Items, declLit(r, "policy", cpick(r, cPolicies)))
		if r.IntN(4) == 0 {
			// group-level override of the patched global key (not patched itself)
			gs.insert(r, declLit(r, "tcp_check_http_method", cpick(r, spellMethods)))
		}
		grp.Items = append(grp.Items, &CItem{Kind: CSecIt, Sec: gs})
		cm.Groups = append(cm.Groups, name)
	}

	// ---- routing: rule i is the only one matching its own destination port(s)
	rt := &CSec{Name: "routing"}
	used := map[int]bool{}
	port := func() int {
		for {
			p := 1 + r.IntN(65535)
			if !used[p] {
				used[p] = true
				return p
			}
		}
	}
	for i, s := range outs {
		it := &CItem{Kind: CRule}
		p := port()
		m.Probes = append(m.Probes, SpellProbe{Port: p, Rule: i})
		main := CFn{Name: "dport", Pars: []CPar{{L: CLit{V: strconv.Itoa(p)}}}}
		if r.IntN(4) == 0 {
			p2 := port()
			m.Probes = append(m.Probes, SpellProbe{Port: p2, Rule: i})
			main.Pars = append(main.Pars, CPar{L: CLit{V: strconv.Itoa(p2)}})
		}
		extra := []CFn{
			{Name: "l4proto", Pars: []CPar{{L: CLit{V: "tcp"}}}},
			{Name: "ipversion", Pars: []CPar{{L: CLit{V: "4"}}}},
			{Not: true, Name: "l4proto", Pars: []CPar{{L: CLit{V: "udp"}}}},
			{Not: true, Name: "dscp", Pars: []CPar{{L: CLit{V: "63"}}}},
		}[r.IntN(4)]
		switch r.IntN(4) {
		case 0:
			it.Conds = []CFn{main, extra}
		case 1:
			it.Conds = []CFn{extra, main}
		default:
			it.Conds = []CFn{main}
		}
		it.Out, it.OutBare = s.fn(r)
		rt.Items = append(rt.Items, it)
		if s.mustRules {
			class("must_rules:" + spellPosOf(i, n))
		} else {
			class("mustout:" + s.prefix + ":" + s.params + ":" + spellPosOf(i, n))
		}
	}
	m.Probes = append(m.Probes, SpellProbe{Port: port(), Rule: -1})
	cm.NRules = n
	if fbForm == "absent" {
		class("fbform:absent")
	} else {
		f, bare := fb.fn(r)
		cm.Fallback = f.Name
		switch {
		case !bare:
			rt.Items = append(rt.Items, &CItem{Kind: CDeclFn, Key: "fallback", Fns: []CFn{f}})
		case fbForm == "quoted" || (fbForm == "written" && r.IntN(3) == 0):
			q := byte('\'')
			if r.IntN(2) == 0 {
				q = '"'
			}
			rt.Items = append(rt.Items, &CItem{Kind: CDecl, Key: "fallback", Lits: []CLit{{V: f.Name, Q: q}}})
			class("fbform:" + fb.prefix + ":quoted")
		default:
			rt.Items = append(rt.Items, &CItem{Kind: CDecl, Key: "fallback", Lits: []CLit{{V: f.Name}}})
			class("fbform:" + fb.prefix + ":bare")
		}
		class("mustout:" + fb.prefix + ":" + fb.params + ":fallback")
		if r.IntN(3) == 0 {
			// the position of `fallback:` among the rules is free
			last := rt.Items[len(rt.Items)-1]
			rt.Items = rt.Items[:len(rt.Items)-1]
			rt.insert(r, last)
		}
	}

	// ---- dns
	var dns *CSec
	if dnsShape != "absent" {
		dns = &CSec{Name: "dns"}
		cm.HasDns = true
	}
	if dns != nil && dnsShape != "empty-section" {
		up := &CSec{Name: "upstream"}
		for i, tag := range []string{"alidns", "googledns"} {
			link := cUpstreams[(idx+i)%len(cUpstreams)]
			up.Items = append(up.Items, &CItem{Kind: CDecl, Key: tag, Lits: []CLit{MkLit(r, link, true)}})
			cm.Upstream = append(cm.Upstream, tag+":"+link)
		}
		dns.Items = append(dns.Items, &CItem{Kind: CSecIt, Sec: up})
		if r.IntN(3) == 0 {
			dns.insert(r, declLit(r, "ipversion_prefer", []string{"4", "6", "0"}[r.IntN(3)]))
		}
		lit := func(v string) CLit {
			if r.IntN(3) == 0 {
				return CLit{V: v, Q: '\''}
			}
			return CLit{V: v}
		}
		rs := &CSec{Name: "routing"}
		if dnsShape == "request-only" || dnsShape == "both" {
			req := &CSec{Name: "request"}
			if r.IntN(2) == 0 {
				req.Items = append(req.Items, &CItem{Kind: CRule, OutBare: true,
					Conds: []CFn{{Name: "qtype", Pars: []CPar{{L: CLit{V: cpick(r, []string{"a", "aaaa", "https"})}}}}},
					Out:   CFn{Name: cpick(r, []string{"asis", "reject", "alidns", "googledns"})}})
			}
			m.DnsReq = cpick(r, []string{"asis", "alidns", "googledns", "reject"})
			req.insert(r, &CItem{Kind: CDecl, Key: "fallback", Lits: []CLit{lit(m.DnsReq)}})
			rs.Items = append(rs.Items, &CItem{Kind: CSecIt, Sec: req})
		}
		if dnsShape == "response-only" || dnsShape == "both" {
			resp := &CSec{Name: "response"}
			if r.IntN(2) == 0 {
				resp.Items = append(resp.Items, &CItem{Kind: CRule, OutBare: true,
					Conds: []CFn{{Name: "upstream", Pars: []CPar{{L: CLit{V: "googledns"}}}}},
					Out:   CFn{Name: "accept"}})
			}
			m.DnsResp = cpick(r, []string{"accept", "accept", "reject"})
			resp.insert(r, &CItem{Kind: CDecl, Key: "fallback", Lits: []CLit{lit(m.DnsResp)}})
			rs.Items = append(rs.Items, &CItem{Kind: CSecIt, Sec: resp})
		}
		if len(rs.Items) > 0 {
			if len(rs.Items) == 2 && r.IntN(2) == 0 {
				rs.Items[0], rs.Items[1] = rs.Items[1], rs.Items[0]
			}
			dns.insert(r, &CItem{Kind: CSecIt, Sec: rs})
		} else if r.IntN(3) == 0 {
			dns.insert(r, &CItem{Kind: CSecIt, Sec: rs}) // `routing {}` written, nothing in it
		}
	}
	class("emptydns:" + dnsShape)

	d.Secs = []*CSec{g, grp, rt}
	if dns != nil {
		d.Secs = append(d.Secs, dns)
	}
	if r.IntN(3) == 0 {
		d.Secs = append(d.Secs, &CSec{Name: "node"})
	}
	r.Shuffle(len(d.Secs), func(a, b int) { d.Secs[a], d.Secs[b] = d.Secs[b], d.Secs[a] })
	return d, m
}
