package verifkit

// Driver for /verif/kernsim: builds dae's control/kern/tproxy.c natively with
// ASan+UBSan against the helper shim and talks to it over a pipe.

import (
	"bufio"
	"bytes"
	"crypto/sha256"
	"debug/elf"
	"encoding/binary"
	"encoding/hex"
	"errors"
	"fmt"
	"io"
	"os"
	"os/exec"
	"path/filepath"
	"strings"
	"sync"
	"time"
)

var ksBuildMu sync.Mutex

// BuildKernsim compiles kernsim from $VERIF_REPO's current tproxy.c. The
// binary is cached by content hash of every input.
func BuildKernsim() (string, error) {
	ksBuildMu.Lock()
	defer ksBuildMu.Unlock()
	vd, repo := VerifDir(), RepoDir()
	tproxy := filepath.Join(repo, "control", "kern", "tproxy.c")
	h := sha256.New()
	inputs := []string{tproxy, filepath.Join(repo, "control", "kern", "ebpf_sync_defs.h"),
		filepath.Join(vd, "kernsim", "kernsim.c"), filepath.Join(vd, "kernsim", "genmaps.py")}
	hs, _ := filepath.Glob(filepath.Join(vd, "cshim", "headers", "*.h"))
	inputs = append(inputs, hs...)
	for _, f := range inputs {
		b, err := os.ReadFile(f)
		if err != nil {
			return "", err
		}
		h.Write([]byte(f))
		h.Write(b)
	}
	flags := []string{"-O1", "-g", "-fsanitize=address,undefined", "-fno-sanitize=alignment", "-fno-sanitize-recover=all", "-fno-omit-frame-pointer",
		"-Wno-address-of-packed-member"}
	h.Write([]byte(strings.Join(flags, " ")))
	tag := hex.EncodeToString(h.Sum(nil)[:8])
	dir := filepath.Join(vd, "build", "kernsim", tag)
	bin := filepath.Join(dir, "kernsim")
	if _, err := os.Stat(bin); err == nil {
		return bin, nil
	}
	if err := os.MkdirAll(dir, 0o755); err != nil {
		return "", err
	}
	if out, err := exec.Command("python3", filepath.Join(vd, "kernsim", "genmaps.py"), tproxy, dir).CombinedOutput(); err != nil {
		return "", fmt.Errorf("genmaps: %v: %s", err, out)
	}
	tmp := fmt.Sprintf("%s.tmp%d", bin, os.Getpid())
	args := append(append([]string(nil), flags...),
		"-I", filepath.Join(vd, "cshim"), "-I", dir, "-I", filepath.Join(repo, "control", "kern"),
		"-DTPROXY_C=\""+tproxy+"\"", filepath.Join(vd, "kernsim", "kernsim.c"), "-o", tmp)
	if out, err := exec.Command("clang", args...).CombinedOutput(); err != nil {
		return "", fmt.Errorf("clang: %v: %s", err, out)
	}
	if err := os.Rename(tmp, bin); err != nil {
		return "", err
	}
	return bin, nil
}

type KS struct {
	cmd     *exec.Cmd
	w       *bufio.Writer
	r       *bufio.Reader
	stdin   io.WriteCloser
	replay  *bufio.Writer
	replayF *os.File
	Replay  string // path of the command log (replay file)
	sanLog  string
	stderr  bytes.Buffer
	dead    error
	pending int
	q       []uint8
	kicked  bool
}

// StartKernsim launches a fresh child. Every command is appended to a replay
// file BEFORE it is sent.
func StartKernsim(id, tag string) (*KS, error) {
	bin, err := BuildKernsim()
	if err != nil {
		return nil, err
	}
	dir := filepath.Join(BuildDir(), "replay", id)
	_ = os.MkdirAll(dir, 0o755)
	k := &KS{}
	k.Replay = filepath.Join(dir, fmt.Sprintf("%s-kernsim-%s-seed%d.cmds", id, tag, Seed()))
	k.replayF, err = os.Create(k.Replay)
	if err != nil {
		return nil, err
	}
	k.replay = bufio.NewWriterSize(k.replayF, 1<<16)
	k.sanLog = filepath.Join(dir, fmt.Sprintf("%s-san-%s", id, tag))
	old, _ := filepath.Glob(k.sanLog + ".*")
	for _, f := range old {
		_ = os.Remove(f)
	}
	k.cmd = exec.Command(bin)
	k.cmd.Env = append(os.Environ(),
		"ASAN_OPTIONS=halt_on_error=1:abort_on_error=1:detect_leaks=0:log_path="+k.sanLog,
		"UBSAN_OPTIONS=halt_on_error=1:abort_on_error=1:print_stacktrace=1:log_path="+k.sanLog)
	k.cmd.Stderr = &k.stderr
	k.stdin, err = k.cmd.StdinPipe()
	if err != nil {
		return nil, err
	}
	so, err := k.cmd.StdoutPipe()
	if err != nil {
		return nil, err
	}
	k.w = bufio.NewWriterSize(k.stdin, 1<<20)
	k.r = bufio.NewReaderSize(so, 1<<20)
	if err := k.cmd.Start(); err != nil {
		return nil, err
	}
	return k, nil
}

func (k *KS) Close() {
	if k.cmd == nil {
		return
	}
	_ = k.w.Flush()
	_ = k.stdin.Close()
	done := make(chan struct{})
	go func() { _ = k.cmd.Wait(); close(done) }()
	select {
	case <-done:
	case <-time.After(20 * time.Second):
		_ = k.cmd.Process.Kill()
	}
	_ = k.replay.Flush()
	_ = k.replayF.Close()
	k.cmd = nil
}

// SanitizerReport returns the ASan/UBSan report and stderr if the child died.
func (k *KS) SanitizerReport() string {
	var sb strings.Builder
	fs, _ := filepath.Glob(k.sanLog + ".*")
	for _, f := range fs {
		b, _ := os.ReadFile(f)
		sb.Write(b)
	}
	sb.WriteString(k.stderr.String())
	return sb.String()
}

func (k *KS) Dead() error { return k.dead }

type kbuf struct{ bytes.Buffer }

func (b *kbuf) u8(v uint8)   { b.WriteByte(v) }
func (b *kbuf) u32(v uint32) { _ = binary.Write(b, binary.LittleEndian, v) }
func (b *kbuf) u64(v uint64) { _ = binary.Write(b, binary.LittleEndian, v) }
func (b *kbuf) bs(p []byte)  { b.u32(uint32(len(p))); b.Write(p) }

func (k *KS) send(b *kbuf) {
	if k.dead != nil {
		return
	}
	var l [4]byte
	binary.LittleEndian.PutUint32(l[:], uint32(b.Len()))
	k.replay.Write(l[:])
	k.replay.Write(b.Bytes())
	if _, err := k.w.Write(l[:]); err != nil {
		k.fail(err)
		return
	}
	if _, err := k.w.Write(b.Bytes()); err != nil {
		k.fail(err)
	}
}

func (k *KS) fail(err error) {
	if k.dead == nil {
		_ = k.replay.Flush()
		k.dead = fmt.Errorf("kernsim child died: %v\n%s", err, k.SanitizerReport())
	}
}

// Flush pushes all queued commands to the child and waits for its flush ack
// to be the next thing in the response stream after the queued responses.
func (k *KS) flush() {
	var b kbuf
	b.u8(0)
	k.send(&b)
	_ = k.replay.Flush()
	if err := k.w.Flush(); err != nil {
		k.fail(err)
	}
}

func (k *KS) ru8() uint8 {
	if k.dead != nil {
		return 0
	}
	c, err := k.r.ReadByte()
	if err != nil {
		k.fail(err)
	}
	return c
}
func (k *KS) ru32() uint32 {
	var b [4]byte
	if k.dead != nil {
		return 0
	}
	if _, err := io.ReadFull(k.r, b[:]); err != nil {
		k.fail(err)
	}
	return binary.LittleEndian.Uint32(b[:])
}
func (k *KS) ru64() uint64 {
	var b [8]byte
	if k.dead != nil {
		return 0
	}
	if _, err := io.ReadFull(k.r, b[:]); err != nil {
		k.fail(err)
	}
	return binary.LittleEndian.Uint64(b[:])
}
func (k *KS) rbs() []byte {
	n := k.ru32()
	if k.dead != nil || n == 0 {
		return nil
	}
	p := make([]byte, n)
	if _, err := io.ReadFull(k.r, p); err != nil {
		k.fail(err)
	}
	return p
}
func (k *KS) expect(op uint8) {
	if got := k.ru8(); k.dead == nil && got != op {
		k.fail(fmt.Errorf("protocol desync: want %d got %d", op, got))
	}
}
func (k *KS) ackFlush() { k.expect(0) }

// pre drains queued commands before a synchronous command.
func (k *KS) pre() {
	if len(k.q) > 0 || k.kicked {
		k.Sync()
	}
}

func (k *KS) Reset() {
	k.pre()
	var b kbuf
	b.u8(1)
	k.send(&b)
	k.flush()
	k.expect(1)
	k.ackFlush()
}

// MapUpdate writes raw key/value bytes into a named map.
func (k *KS) MapUpdate(name string, key, val []byte, flags uint64) (rc int32, keySize, valSize uint32) {
	k.pre()
	var b kbuf
	b.u8(2)
	b.bs([]byte(name))
	b.bs(key)
	b.bs(val)
	b.u64(flags)
	k.send(&b)
	k.flush()
	k.expect(2)
	rc = int32(k.ru32())
	keySize, valSize = k.ru32(), k.ru32()
	k.ackFlush()
	return
}

// MapUpdateQ queues an update without waiting (responses checked by Sync).
type pend struct {
	op   uint8
	what string
}

func (k *KS) MapDelete(name string, key []byte) int32 {
	k.pre()
	var b kbuf
	b.u8(3)
	b.bs([]byte(name))
	b.bs(key)
	k.send(&b)
	k.flush()
	k.expect(3)
	rc := int32(k.ru32())
	k.ackFlush()
	return rc
}

func (k *KS) MapGet(name string, key []byte) (val []byte, ok bool) {
	k.pre()
	var b kbuf
	b.u8(4)
	b.bs([]byte(name))
	b.bs(key)
	k.send(&b)
	k.flush()
	k.expect(4)
	ok = k.ru8() != 0
	val = k.rbs()
	k.ackFlush()
	return
}

type KV struct{ Key, Val []byte }

func (k *KS) MapDump(name string) []KV {
	k.pre()
	var b kbuf
	b.u8(5)
	b.bs([]byte(name))
	k.send(&b)
	k.flush()
	k.expect(5)
	n := k.ru32()
	out := make([]KV, 0, n)
	for i := uint32(0); i < n && k.dead == nil; i++ {
		out = append(out, KV{k.rbs(), k.rbs()})
	}
	k.ackFlush()
	return out
}

type LpmEnt struct {
	PrefixLen uint32
	Data      [16]byte
}

func (k *KS) LpmSet(slot uint32, ents []LpmEnt) (rc int32, keySize uint32) {
	k.pre()
	var b kbuf
	b.u8(6)
	b.u32(slot)
	b.u32(uint32(len(ents)))
	for _, e := range ents {
		b.u32(e.PrefixLen)
		b.Write(e.Data[:])
	}
	k.send(&b)
	k.flush()
	k.expect(6)
	rc = int32(k.ru32())
	keySize = k.ru32()
	k.ackFlush()
	return
}

// LpmDel empties slot of lpm_array_map (what deleting the inner map from the array does in the kernel).
func (k *KS) LpmDel(slot uint32) (rc int32) {
	k.pre()
	var b kbuf
	b.u8(6)
	b.u32(slot)
	b.u32(0xffffffff)
	k.send(&b)
	k.flush()
	k.expect(6)
	rc = int32(k.ru32())
	k.ru32()
	k.ackFlush()
	return
}

func (k *KS) SetParam(raw []byte) (cSize uint32) {
	k.pre()
	var b kbuf
	b.u8(7)
	b.bs(raw)
	k.send(&b)
	k.flush()
	k.expect(7)
	cSize = k.ru32()
	k.ackFlush()
	return
}

func (k *KS) SetTime(ns uint64) {
	k.pre()
	var b kbuf
	b.u8(8)
	b.u64(ns)
	k.send(&b)
	k.flush()
	k.expect(8)
	k.ackFlush()
}

type RouteReq struct {
	Flag  [8]uint32
	L4    [20]byte
	Saddr [16]byte
	Daddr [16]byte
	Mac   [16]byte
}

// Routes runs route() for a batch and returns the raw s64 results.
func (k *KS) Routes(reqs []RouteReq) []int64 {
	k.pre()
	for i := range reqs {
		var b kbuf
		b.u8(9)
		for _, f := range reqs[i].Flag {
			b.u32(f)
		}
		b.Write(reqs[i].L4[:])
		b.Write(reqs[i].Saddr[:])
		b.Write(reqs[i].Daddr[:])
		b.Write(reqs[i].Mac[:])
		k.send(&b)
	}
	k.flush()
	out := make([]int64, len(reqs))
	for i := range reqs {
		k.expect(9)
		out[i] = int64(k.ru64())
	}
	k.ackFlush()
	return out
}

const (
	HookLanIngressL2 = iota
	HookLanIngressL3
	HookLanEgressL2
	HookLanEgressL3
	HookWanIngressL2
	HookWanIngressL3
	HookWanEgressL2
	HookWanEgressL3
	HookDae0PeerIngress
	HookDae0Ingress
)

const (
	PullKernel    = 0
	PullForceOK   = 1
	PullForceFail = 2
)

type PktReq struct {
	Hook           uint8
	Protocol       uint32 // skb->protocol (network byte order value as the kernel stores it: htons(ETH_P_*))
	Ifindex        uint32
	IngressIfindex uint32
	Mark           uint32
	Cb0, Cb1       uint32
	PullMode       uint8
	HeadLen        uint32
	Cookie         uint64
	SkMode         uint8
	Data           []byte
}

type KEvent struct {
	Kind  uint8 // 1 update 2 delete 3 ringbuf 4 sockmap/sockhash lookup (key logged, lookup itself returns NULL)
	MapID uint8
	Key   []byte
	Val   []byte
}

type PktRes struct {
	Rc         int32
	Mark       uint32
	Cb0, Cb1   uint32
	Redirected uint8 // 0 no, 1 bpf_redirect, 2 bpf_redirect_peer
	RedirIf    uint32
	RedirFlags uint64
	PktTypeSet uint32 // 0 = not set, else type+1
	SkRefs     int32
	SkLookups  uint32
	SkAssigned uint32
	Pulls      uint32
	Loads      uint32
	Out        []byte
	Events     []KEvent
}

func (k *KS) sendPkt(p *PktReq) {
	var b kbuf
	b.u8(10)
	b.u8(p.Hook)
	b.u32(p.Protocol)
	b.u32(p.Ifindex)
	b.u32(p.IngressIfindex)
	b.u32(p.Mark)
	b.u32(p.Cb0)
	b.u32(p.Cb1)
	b.u8(p.PullMode)
	b.u32(p.HeadLen)
	b.u64(p.Cookie)
	b.u8(p.SkMode)
	b.bs(p.Data)
	k.send(&b)
}

func (k *KS) recvPkt() (r PktRes) {
	k.expect(10)
	r.Rc = int32(k.ru32())
	r.Mark = k.ru32()
	r.Cb0, r.Cb1 = k.ru32(), k.ru32()
	r.Redirected = k.ru8()
	r.RedirIf = k.ru32()
	r.RedirFlags = k.ru64()
	r.PktTypeSet = k.ru32()
	r.SkRefs = int32(k.ru32())
	r.SkLookups = k.ru32()
	r.SkAssigned = k.ru32()
	r.Pulls = k.ru32()
	r.Loads = k.ru32()
	r.Out = k.rbs()
	n := k.ru32()
	for i := uint32(0); i < n && k.dead == nil; i++ {
		var e KEvent
		e.Kind = k.ru8()
		e.MapID = k.ru8()
		e.Key = k.rbs()
		e.Val = k.rbs()
		r.Events = append(r.Events, e)
	}
	return
}

func (k *KS) Pkt(p *PktReq) PktRes {
	k.pre()
	k.sendPkt(p)
	k.flush()
	r := k.recvPkt()
	k.ackFlush()
	return r
}

func (k *KS) Layout() string {
	k.pre()
	var b kbuf
	b.u8(11)
	k.send(&b)
	k.flush()
	k.expect(11)
	s := string(k.rbs())
	k.ackFlush()
	return s
}

func (k *KS) SetMax(name string, max uint32) uint32 {
	k.pre()
	var b kbuf
	b.u8(12)
	b.bs([]byte(name))
	b.u32(max)
	k.send(&b)
	k.flush()
	k.expect(12)
	v := k.ru32()
	k.ackFlush()
	return v
}

type MapInfo struct {
	Name                               string
	Type, KeySize, ValSize, MaxEntries uint32
}

func (k *KS) MapInfo() []MapInfo {
	k.pre()
	var b kbuf
	b.u8(13)
	k.send(&b)
	k.flush()
	k.expect(13)
	n := k.ru32()
	var out []MapInfo
	for i := uint32(0); i < n && k.dead == nil; i++ {
		var m MapInfo
		m.Name = string(k.rbs())
		m.Type, m.KeySize, m.ValSize, m.MaxEntries = k.ru32(), k.ru32(), k.ru32(), k.ru32()
		out = append(out, m)
	}
	k.ackFlush()
	return out
}

var ErrKernsimDead = errors.New("kernsim dead")

// ---- queued (pipelined) API: Q* enqueue commands, Sync sends them and
// returns one result per queued command, in order.

type qop struct{ op uint8 }

func (k *KS) QMapUpdate(name string, key, val []byte, flags uint64) {
	var b kbuf
	b.u8(2)
	b.bs([]byte(name))
	b.bs(key)
	b.bs(val)
	b.u64(flags)
	k.send(&b)
	k.q = append(k.q, 2)
}

func (k *KS) QMapDelete(name string, key []byte) {
	var b kbuf
	b.u8(3)
	b.bs([]byte(name))
	b.bs(key)
	k.send(&b)
	k.q = append(k.q, 3)
}

func (k *KS) QRoute(r *RouteReq) {
	var b kbuf
	b.u8(9)
	for _, f := range r.Flag {
		b.u32(f)
	}
	b.Write(r.L4[:])
	b.Write(r.Saddr[:])
	b.Write(r.Daddr[:])
	b.Write(r.Mac[:])
	k.send(&b)
	k.q = append(k.q, 9)
}

func (k *KS) QPkt(p *PktReq) {
	k.sendPkt(p)
	k.q = append(k.q, 10)
}

func (k *KS) QMapGet(name string, key []byte) {
	var b kbuf
	b.u8(4)
	b.bs([]byte(name))
	b.bs(key)
	k.send(&b)
	k.q = append(k.q, 4)
}

func (k *KS) QSetParam(raw []byte) {
	var b kbuf
	b.u8(7)
	b.bs(raw)
	k.send(&b)
	k.q = append(k.q, 7)
}

// QSetCPU selects the simulated CPU (0..3) the following programs run on: every
// PERCPU_ARRAY map has one copy per CPU, so scratch left by an earlier program is
// only seen by programs on the same CPU (as in the kernel). CPU 0 after Reset.
func (k *KS) QSetCPU(cpu uint32) {
	var b kbuf
	b.u8(14)
	b.u32(cpu)
	k.send(&b)
	k.q = append(k.q, 14)
}

func (k *KS) QSetTime(ns uint64) {
	var b kbuf
	b.u8(8)
	b.u64(ns)
	k.send(&b)
	k.q = append(k.q, 8)
}

// QResult: Rc for map ops, Route for route(), Pkt for packets.
type QResult struct {
	Op    uint8
	Rc    int32
	Route int64
	Pkt   PktRes
	Found bool   // MapGet
	Val   []byte // MapGet
}

// Kick sends the queued commands (with the flush marker) without waiting, so
// that several children can work in parallel; the following Sync collects.
func (k *KS) Kick() {
	if !k.kicked {
		k.flush()
		k.kicked = true
	}
}

func (k *KS) Sync() []QResult {
	if !k.kicked {
		k.flush()
	}
	k.kicked = false
	out := make([]QResult, 0, len(k.q))
	for _, op := range k.q {
		var r QResult
		r.Op = op
		switch op {
		case 2:
			k.expect(2)
			r.Rc = int32(k.ru32())
			k.ru32()
			k.ru32()
		case 3:
			k.expect(3)
			r.Rc = int32(k.ru32())
		case 4:
			k.expect(4)
			r.Found = k.ru8() != 0
			r.Val = k.rbs()
		case 7:
			k.expect(7)
			r.Rc = int32(k.ru32())
		case 8:
			k.expect(8)
		case 14:
			k.expect(14)
			r.Rc = int32(k.ru32())
		case 9:
			k.expect(9)
			r.Route = int64(k.ru64())
		case 10:
			r.Pkt = k.recvPkt()
		}
		out = append(out, r)
	}
	k.q = k.q[:0]
	k.ackFlush()
	return out
}

// BuildBpfLayout compiles kernsim/layout_bpf.c for `-target bpf` from the
// current tproxy.c and returns the (size, offset) rows stored in its
// .rodata.verif section, in the order of the F rows of the native LAYOUT text.
func BuildBpfLayout() ([][2]uint64, error) {
	bin, err := BuildKernsim() // generates layout_rows.h next to the binary
	if err != nil {
		return nil, err
	}
	dir := filepath.Dir(bin)
	vd, repo := VerifDir(), RepoDir()
	obj := filepath.Join(dir, "layout_bpf.o")
	args := []string{"-target", "bpf", "-O2", "-c", "-DVERIF_BPF_TARGET", "-I", filepath.Join(vd, "cshim"), "-I", dir,
		"-I", filepath.Join(repo, "control", "kern"), "-I/usr/include/x86_64-linux-gnu",
		"-DTPROXY_C=\"" + filepath.Join(repo, "control", "kern", "tproxy.c") + "\"", filepath.Join(vd, "kernsim", "layout_bpf.c"), "-o", obj}
	if out, err := exec.Command("clang", args...).CombinedOutput(); err != nil {
		return nil, fmt.Errorf("clang -target bpf: %v: %s", err, out)
	}
	f, err := elf.Open(obj)
	if err != nil {
		return nil, err
	}
	defer f.Close()
	sec := f.Section(".rodata.verif")
	if sec == nil {
		return nil, errors.New("no .rodata.verif section in BPF object")
	}
	data, err := sec.Data()
	if err != nil {
		return nil, err
	}
	bo := f.ByteOrder
	rows := make([][2]uint64, len(data)/16)
	for i := range rows {
		rows[i][0] = bo.Uint64(data[i*16:])
		rows[i][1] = bo.Uint64(data[i*16+8:])
	}
	return rows, nil
}
