package verifkit

// C16 reference oracle: node health threshold automaton, alive-transition
// callback accounting, group/node agreement and the group connectivity bit.
//
// Written from the property statement only (standard library only, no dae
// imports). Where the statement is silent or admits two readings the oracle
// keeps an INTERVAL [Lo,Hi] for the consecutive-failure count: Lo is the count
// under the reading with the most resets / fewest counted events, Hi under the
// reading with the fewest resets / most counted events. The node MUST be dead
// once Lo reaches the threshold, MAY be dead once Hi reaches it and MUST stay
// alive while Hi is below it. In the "may" zone the oracle adopts what the
// code did and records the case instead of judging it.

import (
	"fmt"
	"math/rand/v2"
	"sort"
)

// Health domains, fixed order.
const (
	C16Tcp4 = iota
	C16Tcp6
	C16DnsUdp4
	C16DnsUdp6
	C16DataUdp4
	C16DataUdp6
)

var C16DomNames = [6]string{"tcp4", "tcp6", "dnsudp4", "dnsudp6", "dataudp4", "dataudp6"}

func C16IsTCP(d int) bool     { return d == C16Tcp4 || d == C16Tcp6 }
func C16IsDataUDP(d int) bool { return d == C16DataUdp4 || d == C16DataUdp6 }
func C16DomClass(d int) string {
	switch {
	case C16IsTCP(d):
		return "tcp"
	case C16IsDataUDP(d):
		return "dataudp"
	}
	return "dnsudp"
}

// Event kinds.
const (
	C16ProbeOk      = "probe_ok"       // production Check() with a succeeding CheckFunc (measured latency)
	C16ProbeOkLat   = "probe_ok_lat"   // markAvailable(latency)+group update (what check() does on success) with a chosen latency
	C16ProbeFail    = "probe_fail"     // production Check() with a failing CheckFunc
	C16ProbeSkip    = "probe_skip"     // Check() returning (false, nil): not applicable, no verdict on health
	C16TrafficOk    = "traffic_ok"     // ReportAvailableTraffic
	C16TrafficFail  = "traffic_fail"   // ReportUnavailable
	C16TransFail    = "trans_fail"     // ReportUnavailableTransactional
	C16Forced       = "forced"         // ReportUnavailableForced
	C16SuppBegin    = "supp_begin"     // BeginReloadProxyFailureSuppression
	C16SuppEnd      = "supp_end"       // EndReloadProxyFailureSuppression (+ quiesce deadline zeroed by the driver)
	C16TrackerReset = "tracker_reset"  // ResetGlobalProxyStateForReload
	C16Snapshot     = "snapshot"       // ReloadHealthSnapshot of node N kept for the next reload
	C16ReloadBuild  = "reload_build"   // build a fresh generation (nodes + groups), old one is closed
	C16CaptureFB    = "capture_fallback" // CaptureReloadSelectionFallback of group N (kept for its next floor)
	C16RestoreNode  = "restore_node"   // RestoreHealthSnapshot(pending snapshot) into node N of the current generation
	C16FloorGroup   = "floor_group"    // EnsureReloadSelectionFloor(group N)
)

// Error classes carried by failure events (field E).
const (
	C16ErrGeneric   = "generic"          // plain failure, counts
	C16ErrTimeout   = "timeout"          // net.Error timeout / deadline exceeded, counts
	C16ErrNil       = "nil"              // report without an error value, counts
	C16ErrCanceled  = "canceled"         // context.Canceled
	C16ErrCanceledW = "canceled_wrapped" // fmt.Errorf("...%w", context.Canceled)
	C16ErrClosed    = "closed"           // net.ErrClosed (teardown)
	C16ErrClosedStr = "closed_str"       // "...use of closed network connection"
	C16ErrOpCancStr = "opcanceled_str"   // "...operation was canceled"
)

func C16ErrIsCancel(e string) bool { return e == C16ErrCanceled || e == C16ErrCanceledW }
func C16ErrIsTeardown(e string) bool {
	return e == C16ErrClosed || e == C16ErrClosedStr || e == C16ErrOpCancStr
}

type C16NodeCfg struct {
	Name string `json:"name"`
	Addr string `json:"addr"`
}

type C16GroupCfg struct {
	Name     string `json:"name"`
	Policy   string `json:"policy"` // min | min_avg10 | min_moving_avg | random | fixed
	FixedIdx int    `json:"fixed_idx,omitempty"`
	Members  []int  `json:"members"`
	AddLatMs []int  `json:"add_latency_ms"`
}

func (g *C16GroupCfg) LatencyPolicy() bool {
	return g.Policy == "min" || g.Policy == "min_avg10" || g.Policy == "min_moving_avg"
}
func (g *C16GroupCfg) HasSets() bool { return g.Policy != "fixed" }

type C16Config struct {
	Nodes       []C16NodeCfg  `json:"nodes"`
	Groups      []C16GroupCfg `json:"groups"`
	ToleranceMs int           `json:"tolerance_ms"`
}

type C16Event struct {
	K     string `json:"k"`
	N     int    `json:"n"` // node index; group index for restore_group / floor_group
	D     int    `json:"d"` // domain
	V     int    `json:"v,omitempty"`
	LatUs int64  `json:"lat_us,omitempty"`
	E     string `json:"e,omitempty"`
}

func (e C16Event) String() string {
	s := e.K
	switch e.K {
	case C16SuppBegin, C16SuppEnd, C16TrackerReset, C16ReloadBuild:
		return s
	case C16CaptureFB, C16FloorGroup:
		return fmt.Sprintf("%s(g%d)", s, e.N)
	case C16Snapshot, C16RestoreNode:
		return fmt.Sprintf("%s(n%d)", s, e.N)
	}
	s = fmt.Sprintf("%s(n%d,%s", s, e.N, C16DomNames[e.D])
	if e.V != 0 {
		s += fmt.Sprintf(",v%d", e.V)
	}
	if e.E != "" {
		s += "," + e.E
	}
	if e.LatUs != 0 {
		s += fmt.Sprintf(",%dus", e.LatUs)
	}
	return s + ")"
}

type C16NodeCB struct {
	N     int  `json:"n"`
	D     int  `json:"d"`
	Alive bool `json:"alive"`
}

type C16GroupCB struct {
	G     int  `json:"g"`
	D     int  `json:"d"`
	Alive bool `json:"alive"`
	Init  bool `json:"init,omitempty"`
}

// C16Obs is what the driver observed after executing one event on real code.
type C16Obs struct {
	Alive       [][6]bool    `json:"alive"`           // per node: Dialer.MustGetAlive
	NodeCB      []C16NodeCB  `json:"node_cb"`         // alive-transition callbacks during the event, in order
	GroupMember [][6][]bool  `json:"group_member"`    // per group/domain/member: node is in the group's alive set (nil: group keeps no sets)
	GroupLen    [][6]int     `json:"group_len"`       // AliveDialerSet.Len (-1: no set)
	GroupCB     []C16GroupCB `json:"group_cb"`        // group connectivity callbacks during the event, in order
	Selectable  [][6]bool    `json:"selectable"`      // floor events: group.Select(type, strict=false) found a node
	SelStrict   [][6]bool    `json:"selectable_strict"`
	FailCount   [][6]int     `json:"fail_count"`      // internal counters, recorded only
	TrafficFail [][6]int     `json:"traffic_fail"`    // internal counters, recorded only
	Panic       string       `json:"panic,omitempty"` // recovered panic in code under test
}

type C16Iv struct{ Lo, Hi int }

type C16NodeState struct {
	Addr  string
	Alive [6]bool
	PF    [6]C16Iv // consecutive probe-class failures
	TF    [6]C16Iv // consecutive traffic failures
}

type c16Snap struct {
	Alive [6]bool
	PFHi  [6]int
	TFHi  [6]int
}

type C16Finding struct {
	Sig  string `json:"sig"`
	What string `json:"what"`
}

type C16Oracle struct {
	Cfg     C16Config
	Nodes   []C16NodeState
	Esc     map[string]*C16Iv // death transitions accumulated per proxy address
	Supp    int
	Snap    map[int]*c16Snap // taken by snapshot events, consumed by reload_build
	Pending map[int]*c16Snap // what restore_group hands to the current generation
	Bit     [][6]bool        // connectivity bit per group/domain as driven by the callbacks
	Gen     int

	CountFn    func(name string, n int64)
	DistinctFn func(sig string)
}

func NewC16Oracle(cfg C16Config) *C16Oracle {
	o := &C16Oracle{Cfg: cfg, Esc: map[string]*C16Iv{}, Snap: map[int]*c16Snap{}, Pending: map[int]*c16Snap{}}
	o.freshGeneration()
	return o
}

func (o *C16Oracle) freshGeneration() {
	o.Nodes = make([]C16NodeState, len(o.Cfg.Nodes))
	for i, nc := range o.Cfg.Nodes {
		o.Nodes[i].Addr = nc.Addr
		for d := 0; d < 6; d++ {
			o.Nodes[i].Alive[d] = true
		}
	}
	o.Bit = make([][6]bool, len(o.Cfg.Groups))
	for g := range o.Bit {
		for d := 0; d < 6; d++ {
			o.Bit[g][d] = true
		}
	}
}

func (o *C16Oracle) cnt(name string) {
	if o.CountFn != nil {
		o.CountFn(name, 1)
	}
}

func (o *C16Oracle) esc(addr string) *C16Iv {
	e := o.Esc[addr]
	if e == nil {
		e = &C16Iv{}
		o.Esc[addr] = e
	}
	return e
}

// C16Threshold is the documented number of consecutive failures.
func C16Threshold(traffic bool, d int) int {
	if traffic {
		if C16IsTCP(d) {
			return 10
		}
		return 50
	}
	if C16IsTCP(d) {
		return 1
	}
	return 3
}

const C16EscalationThreshold = 3

const (
	c16PermAlive = 1
	c16PermDead  = 2
)

func c16PermOf(alive bool) uint8 {
	if alive {
		return c16PermAlive
	}
	return c16PermDead
}

func (o *C16Oracle) aliveCount(g int, d int, st func(n int) bool) int {
	c := 0
	for _, m := range o.Cfg.Groups[g].Members {
		if st(m) {
			c++
		}
	}
	return c
}

// StateDump is put into witnesses.
func (o *C16Oracle) StateDump() map[string]any {
	esc := map[string]C16Iv{}
	for k, v := range o.Esc {
		esc[k] = *v
	}
	return map[string]any{"nodes": o.Nodes, "escalation": esc, "suppression_depth": o.Supp, "generation": o.Gen, "bits": o.Bit}
}

// Step judges the observation of one executed event and advances the model.
// A non-empty result means the property was violated at this event; the model
// is then out of sync and the history must be abandoned.
func (o *C16Oracle) Step(ev C16Event, obs *C16Obs) (fs []C16Finding) {
	add := func(sig, what string, a ...any) {
		fs = append(fs, C16Finding{Sig: sig, What: fmt.Sprintf(what, a...)})
	}
	if obs.Panic != "" {
		add("panic:"+ev.K, "code under test panicked during %v: %s", ev, obs.Panic)
		return
	}
	if ev.K == C16ReloadBuild {
		// Everything the previous generation knew is handed over as snapshots.
		for n := range o.Nodes {
			if o.Snap[n] == nil {
				o.Snap[n] = o.takeSnap(n)
			} else {
				o.cnt("reload_with_stale_snapshot")
			}
		}
		o.Pending = o.Snap
		o.Snap = map[int]*c16Snap{}
		o.freshGeneration()
		o.Gen++
	}
	nn := len(o.Nodes)
	if len(obs.Alive) != nn {
		add("driver:shape", "driver observed %d nodes, model has %d", len(obs.Alive), nn)
		return
	}
	before := make([][6]bool, nn)
	perm := make([][6]uint8, nn)
	for n := range o.Nodes {
		before[n] = o.Nodes[n].Alive
		for d := 0; d < 6; d++ {
			perm[n][d] = c16PermOf(before[n][d])
		}
	}
	dom := ev.D
	domName := ""
	if dom >= 0 && dom < 6 {
		domName = C16DomNames[dom]
	}
	var (
		deathForced  bool // target death (if any) comes from a forced report
		targetNode   = -1
		sigClass     = ev.K // structural class used in signatures
		floorDomains [6]bool
		escMode      int // 0: no escalation permitted, 1: required, 2: permitted and taken
	)
	distinct := func(extra string) {
		if o.DistinctFn != nil {
			o.DistinctFn(domName + "|" + ev.K + "|" + extra)
		}
	}

	switch ev.K {
	case C16ProbeOk, C16ProbeOkLat:
		nd := &o.Nodes[ev.N]
		targetNode = ev.N
		sigClass = ev.K + ":" + C16DomClass(dom)
		o.noteMissedByOne(nd, dom, true)
		perm[ev.N][dom] = c16PermAlive
		distinct(fmt.Sprintf("pf%d-%d|tf%d-%d|was%v", nd.PF[dom].Lo, nd.PF[dom].Hi, nd.TF[dom].Lo, nd.TF[dom].Hi, nd.Alive[dom]))
		nd.PF[dom], nd.TF[dom] = C16Iv{}, C16Iv{}
		if nd.Addr != "" {
			e := o.esc(nd.Addr)
			if e.Lo == C16EscalationThreshold-1 && e.Hi == C16EscalationThreshold-1 {
				o.cnt("missed_by_one_escalation")
			}
			*e = C16Iv{}
		}
		if nd.Alive[dom] {
			o.cnt("success_while_alive")
		} else {
			o.cnt("revive_by_probe")
		}

	case C16ProbeSkip:
		targetNode = ev.N
		sigClass = ev.K + ":" + C16DomClass(dom)
		o.cnt("ignored_probe_skip")
		distinct(fmt.Sprintf("was%v", o.Nodes[ev.N].Alive[dom]))

	case C16TrafficOk:
		nd := &o.Nodes[ev.N]
		targetNode = ev.N
		sigClass = ev.K + ":" + C16DomClass(dom)
		o.noteMissedByOne(nd, dom, false)
		distinct(fmt.Sprintf("pf%d-%d|tf%d-%d|was%v", nd.PF[dom].Lo, nd.PF[dom].Hi, nd.TF[dom].Lo, nd.TF[dom].Hi, nd.Alive[dom]))
		nd.TF[dom] = C16Iv{}
		nd.PF[dom].Lo = 0 // reading "any success clears the counts"; Hi keeps the reading "only a probe clears probe failures"
		if nd.Addr != "" {
			o.esc(nd.Addr).Lo = 0
		}
		if C16IsDataUDP(dom) {
			perm[ev.N][dom] = c16PermAlive
			if !nd.Alive[dom] {
				o.cnt("revive_by_data_udp_traffic")
				nd.PF[dom] = C16Iv{}
				if nd.Addr != "" {
					*o.esc(nd.Addr) = C16Iv{}
				}
			}
		} else if !nd.Alive[dom] {
			o.cnt("traffic_ok_on_dead_non_data_domain")
		}

	case C16ProbeFail, C16TrafficFail, C16TransFail:
		nd := &o.Nodes[ev.N]
		targetNode = ev.N
		sigClass = ev.K + ":" + C16DomClass(dom)
		if C16ErrIsCancel(ev.E) {
			o.cnt("ignored_cancel_" + ev.K)
			distinct("cancel|" + ev.E)
			break
		}
		cls := ev.K
		if C16ErrIsTeardown(ev.E) {
			if ev.K != C16ProbeFail {
				o.cnt("ignored_teardown_" + ev.K)
				distinct("teardown|" + ev.E)
				break
			}
			// A probe failing with a closed-connection error: the statement
			// says teardown failures never count, the probe path cannot tell
			// them from a server-side close. Ambiguous: Hi only.
			cls = "probe_teardownish"
			o.cnt("ambiguous_probe_teardown_error")
		}
		if o.Supp > 0 {
			o.cnt("muted_by_suppression_" + ev.K)
			distinct(fmt.Sprintf("muted|was%v", nd.Alive[dom]))
			break
		}
		traffic := ev.K == C16TrafficFail
		thr := C16Threshold(traffic, dom)
		var iv *C16Iv
		switch cls {
		case C16ProbeFail:
			iv = &nd.PF[dom]
			iv.Lo++
			iv.Hi++
		case C16TrafficFail:
			iv = &nd.TF[dom]
			iv.Lo++
			iv.Hi++
		default: // transactional report / teardown-looking probe error: class not fixed by the statement
			iv = &nd.PF[dom]
			iv.Hi++
		}
		if nd.Alive[dom] {
			switch {
			case iv.Lo >= thr:
				perm[ev.N][dom] = c16PermDead
				if iv.Lo == thr && iv.Hi == thr {
					o.cnt("threshold_reached_exactly_" + cls + "_" + C16DomClass(dom))
				}
				o.cnt("must_die_" + cls)
			case iv.Hi >= thr:
				perm[ev.N][dom] = c16PermAlive | c16PermDead
				o.cnt("ambiguous_may_die_" + cls)
			default:
				if iv.Lo == thr-1 && iv.Hi == thr-1 {
					o.cnt("one_below_threshold_alive_" + cls + "_" + C16DomClass(dom))
				}
				o.cnt("must_stay_alive_" + cls)
			}
		} else {
			o.cnt("failure_while_dead")
		}
		distinct(fmt.Sprintf("%s|%d-%d|was%v", cls, min(iv.Lo, 60), min(iv.Hi, 60), nd.Alive[dom]))

	case C16Forced:
		nd := &o.Nodes[ev.N]
		targetNode = ev.N
		deathForced = true
		sigClass = ev.K + ":" + C16DomClass(dom)
		if C16ErrIsCancel(ev.E) || C16ErrIsTeardown(ev.E) {
			// "immediately on a forced report" vs "cancellation never counts": not decided by the statement.
			if nd.Alive[dom] {
				perm[ev.N][dom] = c16PermAlive | c16PermDead
			}
			o.cnt("ambiguous_forced_with_teardown_error")
		} else {
			perm[ev.N][dom] = c16PermDead
			o.cnt("forced_report")
			if o.Supp > 0 {
				o.cnt("forced_during_suppression")
			}
		}
		distinct(fmt.Sprintf("was%v|supp%v|%s", nd.Alive[dom], o.Supp > 0, ev.E))

	case C16SuppBegin:
		o.Supp++
		o.cnt("suppression_begin")
	case C16SuppEnd:
		if o.Supp > 0 {
			o.Supp--
		}
		o.cnt("suppression_end")
	case C16TrackerReset:
		for _, e := range o.Esc {
			e.Lo = 0
		}
		o.cnt("tracker_reset")
	case C16Snapshot:
		o.Snap[ev.N] = o.takeSnap(ev.N)
		o.cnt("snapshot")
	case C16ReloadBuild:
		o.cnt("reload_build")
	case C16CaptureFB:
		o.cnt("capture_fallback")
	case C16RestoreNode:
		m := ev.N
		if p := o.Pending[m]; p != nil {
			nd := &o.Nodes[m]
			for d := 0; d < 6; d++ {
				perm[m][d] = c16PermOf(p.Alive[d])
				nd.PF[d] = C16Iv{Lo: 0, Hi: max(nd.PF[d].Hi, p.PFHi[d])}
				nd.TF[d] = C16Iv{Lo: 0, Hi: max(nd.TF[d].Hi, p.TFHi[d])}
				if before[m][d] != p.Alive[d] {
					o.cnt("restore_flips_node")
				}
			}
			o.cnt("restore_applied")
			distinct(fmt.Sprintf("%v->%v", before[m], p.Alive))
		} else {
			o.cnt("restore_without_snapshot")
		}
	case C16FloorGroup:
		g := &o.Cfg.Groups[ev.N]
		if g.HasSets() && len(g.Members) > 0 {
			for d := 0; d < 6; d++ {
				if o.aliveCount(ev.N, d, func(n int) bool { return before[n][d] }) == 0 {
					floorDomains[d] = true
					for _, m := range g.Members {
						perm[m][d] = c16PermAlive | c16PermDead
					}
					o.cnt("floor_needed")
				} else {
					o.cnt("floor_not_needed")
				}
			}
		}
		distinct(fmt.Sprintf("%s|%v", g.Policy, floorDomains))
	default:
		add("driver:unknown-event", "unknown event kind %q", ev.K)
		return
	}

	// ---- 1. the targeted (node, domain) --------------------------------
	after := obs.Alive
	judge := func(n, d int) bool {
		a := after[n][d]
		if perm[n][d]&c16PermOf(a) != 0 {
			return true
		}
		target := n == ev.N && d == dom && ev.K != C16RestoreNode && ev.K != C16CaptureFB && ev.K != C16FloorGroup && ev.K != C16ReloadBuild && ev.K != C16Snapshot
		switch {
		case ev.K == C16RestoreNode:
			add("restore-state-not-handed-over", "%v: node n%d %s is alive=%v in the new generation, the snapshot said %v", ev, n, C16DomNames[d], a, !a)
		case ev.K == C16FloorGroup:
			add("floor-changed-node-of-non-empty-type", "%v: node n%d %s changed %v->%v although the group still had an alive node of that type", ev, n, C16DomNames[d], before[n][d], a)
		case target && before[n][d] && !a:
			add("premature-death:"+sigClass, "%v: node n%d %s declared NOT ALIVE; consecutive failures so far probe=[%d,%d] traffic=[%d,%d] (thresholds %d/%d), suppression depth %d",
				ev, n, C16DomNames[d], o.Nodes[n].PF[d].Lo, o.Nodes[n].PF[d].Hi, o.Nodes[n].TF[d].Lo, o.Nodes[n].TF[d].Hi, C16Threshold(false, d), C16Threshold(true, d), o.Supp)
		case target && before[n][d] && a:
			add("missed-death:"+sigClass, "%v: node n%d %s still ALIVE; consecutive failures probe=[%d,%d] traffic=[%d,%d] (thresholds %d/%d)",
				ev, n, C16DomNames[d], o.Nodes[n].PF[d].Lo, o.Nodes[n].PF[d].Hi, o.Nodes[n].TF[d].Lo, o.Nodes[n].TF[d].Hi, C16Threshold(false, d), C16Threshold(true, d))
		case target && !before[n][d] && !a:
			add("no-revive:"+sigClass, "%v: node n%d %s still NOT ALIVE after a success that must revive it", ev, n, C16DomNames[d])
		case target && !before[n][d] && a:
			add("unexpected-revive:"+sigClass, "%v: node n%d %s became ALIVE although only a successful probe (or data-UDP traffic) may revive it", ev, n, C16DomNames[d])
		case !before[n][d] && a:
			add("unrelated-revive:"+sigClass, "%v: untargeted node n%d %s became ALIVE", ev, n, C16DomNames[d])
		case n == targetNode && before[n][d] && a && escMode == 1:
			add("escalation-missing:"+sigClass, "%v: third death transition for proxy address %q without a success in between, but n%d %s is still ALIVE", ev, o.Nodes[n].Addr, n, C16DomNames[d])
		case n == targetNode && before[n][d] && a && escMode == 2:
			add("escalation-incomplete:"+sigClass, "%v: some network types of n%d were forced down with the target, %s is still ALIVE", ev, n, C16DomNames[d])
		case n == targetNode && before[n][targetDom(ev)] && !after[n][targetDom(ev)]:
			add("escalation-not-permitted:"+sigClass, "%v: n%d %s went NOT ALIVE together with the target although fewer than %d death transitions accumulated for proxy address %q",
				ev, n, C16DomNames[d], C16EscalationThreshold, o.Nodes[n].Addr)
		default:
			add("unrelated-death:"+sigClass, "%v: untargeted node n%d %s became NOT ALIVE", ev, n, C16DomNames[d])
		}
		return false
	}
	if targetNode >= 0 {
		if !judge(targetNode, dom) {
			return
		}
		// ---- 2. escalation: death transitions per proxy address --------
		if before[targetNode][dom] && !after[targetNode][dom] {
			escMode = o.afterDeath(targetNode, dom, deathForced, before[targetNode], after[targetNode], &perm[targetNode])
		}
	}
	ok := true
	for n := 0; n < nn; n++ {
		for d := 0; d < 6; d++ {
			if n == targetNode && d == dom {
				continue
			}
			if !judge(n, d) {
				ok = false
			}
		}
	}
	if !ok {
		return
	}

	// ---- 3. alive-transition callbacks: exactly one per actual flip ----
	type nd struct{ n, d int }
	cbs := map[nd][]bool{}
	for _, c := range obs.NodeCB {
		if c.N < 0 || c.N >= nn || c.D < 0 || c.D >= 6 {
			add("transition-callback-bad-type", "%v: callback for unknown node/type %+v", ev, c)
			continue
		}
		cbs[nd{c.N, c.D}] = append(cbs[nd{c.N, c.D}], c.Alive)
	}
	for n := 0; n < nn; n++ {
		for d := 0; d < 6; d++ {
			got := cbs[nd{n, d}]
			flipped := before[n][d] != after[n][d]
			switch {
			case flipped && len(got) == 0:
				add("transition-callback-missing:"+ev.K, "%v: node n%d %s flipped %v->%v, no alive-transition callback fired", ev, n, C16DomNames[d], before[n][d], after[n][d])
			case flipped && len(got) > 1:
				add("transition-callback-duplicate:"+ev.K, "%v: node n%d %s flipped once, %d callbacks fired %v", ev, n, C16DomNames[d], len(got), got)
			case flipped && got[0] != after[n][d]:
				add("transition-callback-wrong-value:"+ev.K, "%v: node n%d %s is now alive=%v, callback said %v", ev, n, C16DomNames[d], after[n][d], got[0])
			case !flipped && len(got) > 0:
				add("transition-callback-spurious:"+ev.K, "%v: node n%d %s did not change (alive=%v), callbacks fired %v", ev, n, C16DomNames[d], after[n][d], got)
			}
			if flipped {
				o.cnt("transition_callback_checked")
				if after[n][d] {
					o.cnt("flip_to_alive")
				} else {
					o.cnt("flip_to_dead")
				}
			}
		}
	}

	// ---- 4. adopt ------------------------------------------------------
	for n := 0; n < nn; n++ {
		for d := 0; d < 6; d++ {
			if !before[n][d] && after[n][d] && ev.K == C16FloorGroup {
				o.Nodes[n].PF[d], o.Nodes[n].TF[d] = C16Iv{}, C16Iv{}
			}
			if ev.K == C16FloorGroup && !before[n][d] && after[n][d] {
				o.cnt("floor_revived_node")
			}
		}
		o.Nodes[n].Alive = after[n]
	}
	if ev.K == C16FloorGroup {
		for d := 0; d < 6; d++ {
			if !floorDomains[d] {
				continue
			}
			c := 0
			for _, m := range o.Cfg.Groups[ev.N].Members {
				if !before[m][d] && after[m][d] {
					c++
				}
			}
			if c > 1 {
				o.cnt("floor_revived_more_than_one")
			}
		}
	}
	// internal counters vs. interval: recorded, never judged
	for n := 0; n < nn && n < len(obs.FailCount); n++ {
		for d := 0; d < 6; d++ {
			if !after[n][d] {
				continue
			}
			fc, tc := obs.FailCount[n][d], obs.TrafficFail[n][d]
			if fc < o.Nodes[n].PF[d].Lo || fc > o.Nodes[n].PF[d].Hi || tc < o.Nodes[n].TF[d].Lo || tc > o.Nodes[n].TF[d].Hi {
				o.cnt("recorded_internal_counter_outside_model_interval")
			} else {
				o.cnt("recorded_internal_counter_inside_model_interval")
			}
		}
	}

	// ---- 5. every group containing the node sees the node's state ------
	for g := range o.Cfg.Groups {
		gc := &o.Cfg.Groups[g]
		if !gc.HasSets() || g >= len(obs.GroupMember) {
			continue
		}
		for d := 0; d < 6; d++ {
			mem := obs.GroupMember[g][d]
			if mem == nil {
				add("group-has-no-alive-set:"+gc.Policy, "%v: group g%d (%s) exposes no alive set for %s", ev, g, gc.Policy, C16DomNames[d])
				continue
			}
			na := 0
			for i, m := range gc.Members {
				if after[m][d] {
					na++
				}
				if i < len(mem) && mem[i] != after[m][d] {
					add("group-view-differs-from-node:"+sigClass, "%v: group g%d (%s) has node n%d %s in-alive-set=%v, node says alive=%v", ev, g, gc.Policy, m, C16DomNames[d], mem[i], after[m][d])
				}
			}
			if obs.GroupLen[g][d] != na {
				add("group-alive-count-differs:"+sigClass, "%v: group g%d (%s) %s alive set has %d entries, %d members are alive", ev, g, gc.Policy, C16DomNames[d], obs.GroupLen[g][d], na)
			}
			o.cnt("group_view_checked")
		}
	}

	// ---- 6. connectivity bit of latency-policy groups -------------------
	type gd struct{ g, d int }
	gcb := map[gd][]bool{}
	gcbInit := map[gd][]bool{}
	for _, c := range obs.GroupCB {
		if c.G < 0 || c.G >= len(o.Cfg.Groups) || c.D < 0 || c.D >= 6 {
			add("connectivity-callback-bad-type", "%v: callback %+v", ev, c)
			continue
		}
		if c.Init {
			gcbInit[gd{c.G, c.D}] = append(gcbInit[gd{c.G, c.D}], c.Alive)
		} else {
			gcb[gd{c.G, c.D}] = append(gcb[gd{c.G, c.D}], c.Alive)
		}
	}
	for g := range o.Cfg.Groups {
		gc := &o.Cfg.Groups[g]
		for d := 0; d < 6; d++ {
			got := gcb[gd{g, d}]
			ini := gcbInit[gd{g, d}]
			if !gc.LatencyPolicy() || len(gc.Members) == 0 {
				if len(got) > 0 {
					o.cnt("recorded_connectivity_callback_non_latency_group")
				}
				for _, v := range append(ini, got...) {
					o.Bit[g][d] = v
				}
				continue
			}
			nb := o.aliveCount(g, d, func(n int) bool { return before[n][d] })
			na := o.aliveCount(g, d, func(n int) bool { return after[n][d] })
			if ev.K == C16ReloadBuild {
				if len(ini) != 1 || !ini[0] {
					add("connectivity-init-missing", "%v: new latency group g%d %s got init callbacks %v, want exactly one 'alive'", ev, g, C16DomNames[d], ini)
				}
				o.cnt("connectivity_init_checked")
			} else if len(ini) > 0 {
				add("connectivity-init-unexpected:"+ev.K, "%v: init callback outside group construction for g%d %s", ev, g, C16DomNames[d])
			}
			how := ev.K + ":" + C16DomClass(d)
			switch {
			case nb > 0 && na == 0:
				o.cnt("group_last_alive_died")
				if len(got) == 0 {
					add("connectivity-bit-not-cleared-on-last-death:"+how, "%v: latency group g%d (%s) lost its last alive %s node, connectivity callback did not fire (bit stays 1)", ev, g, gc.Policy, C16DomNames[d])
				} else if len(got) > 1 || got[0] {
					add("connectivity-callback-wrong-on-last-death:"+how, "%v: latency group g%d %s: callbacks %v, want [false]", ev, g, C16DomNames[d], got)
				}
			case nb == 0 && na > 0:
				o.cnt("group_first_revived")
				if len(got) == 0 {
					add("connectivity-bit-not-set-on-revive:"+how, "%v: latency group g%d (%s) regained an alive %s node, connectivity callback did not fire (bit stays 0)", ev, g, gc.Policy, C16DomNames[d])
				} else if len(got) > 1 || !got[0] {
					add("connectivity-callback-wrong-on-revive:"+how, "%v: latency group g%d %s: callbacks %v, want [true]", ev, g, C16DomNames[d], got)
				}
			default:
				if len(got) > 0 {
					add("connectivity-callback-spurious:"+how, "%v: latency group g%d (%s) %s alive members %d->%d, callbacks fired %v", ev, g, gc.Policy, C16DomNames[d], nb, na, got)
				}
				o.cnt("group_no_edge_checked")
			}
			for _, v := range append(ini, got...) {
				o.Bit[g][d] = v
			}
			if len(fs) == 0 && o.Bit[g][d] != (na > 0) {
				add("connectivity-bit-out-of-sync:"+how, "%v: latency group g%d %s bit=%v, alive members=%d", ev, g, C16DomNames[d], o.Bit[g][d], na)
			}
		}
	}

	// ---- 7. reload leaves every non-empty group a selectable node ------
	if ev.K == C16FloorGroup && len(o.Cfg.Groups[ev.N].Members) > 0 && ev.N < len(obs.Selectable) {
		for d := 0; d < 6; d++ {
			if !obs.Selectable[ev.N][d] {
				add("floor-leaves-no-selectable-node:"+o.Cfg.Groups[ev.N].Policy, "%v: after EnsureReloadSelectionFloor group g%d (%s) cannot select any node for %s", ev, ev.N, o.Cfg.Groups[ev.N].Policy, C16DomNames[d])
			}
			if !obs.SelStrict[ev.N][d] {
				o.cnt("recorded_floor_strict_type_not_selectable")
			}
			o.cnt("floor_selectable_checked")
		}
	}
	return
}

func (o *C16Oracle) takeSnap(n int) *c16Snap {
	s := &c16Snap{Alive: o.Nodes[n].Alive}
	for d := 0; d < 6; d++ {
		s.PFHi[d] = o.Nodes[n].PF[d].Hi
		s.TFHi[d] = o.Nodes[n].TF[d].Hi
	}
	return s
}

// noteMissedByOne records successes that arrive exactly one failure short of a threshold.
func (o *C16Oracle) noteMissedByOne(nd *C16NodeState, d int, probeSuccess bool) {
	if !nd.Alive[d] {
		return
	}
	if thr := C16Threshold(true, d); nd.TF[d].Lo == thr-1 && nd.TF[d].Hi == thr-1 {
		o.cnt("missed_by_one_traffic_" + C16DomClass(d))
	}
	if thr := C16Threshold(false, d); probeSuccess && thr > 1 && nd.PF[d].Lo == thr-1 && nd.PF[d].Hi == thr-1 {
		o.cnt("missed_by_one_probe_" + C16DomClass(d))
	}
}

// afterDeath accounts one observed death transition of (n,d) for the proxy
// address and widens/narrows what the other network types of n may do.
func (o *C16Oracle) afterDeath(n, d int, forced bool, before, after [6]bool, perm *[6]uint8) (mode int) {
	addr := o.Nodes[n].Addr
	if addr == "" {
		o.cnt("death_without_proxy_address")
		return 0
	}
	e := o.esc(addr)
	if forced {
		e.Hi++ // the statement counts "death transitions"; whether forced ones accumulate is not said
	} else {
		e.Lo++
		e.Hi++
	}
	othersAlive, otherDied := false, false
	for x := 0; x < 6; x++ {
		if x == d {
			continue
		}
		if before[x] {
			othersAlive = true
			if !after[x] {
				otherDied = true
			}
		}
	}
	switch {
	case e.Lo >= C16EscalationThreshold:
		for x := 0; x < 6; x++ {
			if x != d {
				perm[x] = c16PermDead
			}
		}
		if e.Lo == C16EscalationThreshold && e.Hi == C16EscalationThreshold {
			o.cnt("threshold_reached_exactly_escalation")
		}
		if othersAlive {
			o.cnt("escalation_required_observable")
		}
		o.cnt("escalation_required")
		*e = C16Iv{}
		return 1
	case e.Hi >= C16EscalationThreshold:
		if !othersAlive {
			e.Lo = 0 // cannot tell whether the code escalated (and restarted its count)
			o.cnt("ambiguous_escalation_unobservable")
		} else if otherDied {
			for x := 0; x < 6; x++ {
				if x != d {
					perm[x] = c16PermDead
				}
			}
			*e = C16Iv{}
			o.cnt("ambiguous_escalation_taken")
			return 2
		} else {
			o.cnt("ambiguous_escalation_not_taken")
		}
	default:
		if e.Lo == C16EscalationThreshold-1 && e.Hi == C16EscalationThreshold-1 {
			o.cnt("one_below_threshold_no_escalation")
		}
		o.cnt("death_below_escalation")
	}
	return 0
}

func targetDom(ev C16Event) int {
	if ev.D >= 0 && ev.D < 6 {
		return ev.D
	}
	return 0
}

// ---- generator -------------------------------------------------------------

var c16FailErrs = []string{C16ErrGeneric, C16ErrGeneric, C16ErrGeneric, C16ErrTimeout, C16ErrNil}
var c16IgnErrs = []string{C16ErrCanceled, C16ErrCanceledW, C16ErrClosed, C16ErrClosedStr, C16ErrOpCancStr}
var c16Lats = []int64{1000, 3000, 4000, 5000, 7000, 20000, 50000}

type c16Gen struct {
	r   *rand.Rand
	cfg C16Config
	evs []C16Event
}

func (g *c16Gen) emit(e C16Event) { g.evs = append(g.evs, e) }

func (g *c16Gen) variant(d int) int {
	if g.r.IntN(3) == 0 {
		return 1 // alias form of the same domain (TCP-DNS for TCP, unset UDP domain for data UDP, ...)
	}
	return 0
}

func (g *c16Gen) failErr(kind string) string {
	e := c16FailErrs[g.r.IntN(len(c16FailErrs))]
	if kind == C16ProbeFail && e == C16ErrNil {
		e = C16ErrGeneric // Check() treats (false, nil) as "skip"
	}
	return e
}

func (g *c16Gen) success(n, d int) C16Event {
	switch g.r.IntN(4) {
	case 0:
		return C16Event{K: C16ProbeOkLat, N: n, D: d, V: g.variant(d), LatUs: c16Lats[g.r.IntN(len(c16Lats))]}
	default:
		return C16Event{K: C16ProbeOk, N: n, D: d, V: g.variant(d)}
	}
}

func (g *c16Gen) ignorable(n, d int) C16Event {
	switch g.r.IntN(5) {
	case 0:
		return C16Event{K: C16ProbeSkip, N: n, D: d, V: g.variant(d)}
	case 1:
		return C16Event{K: C16ProbeFail, N: n, D: d, V: g.variant(d), E: []string{C16ErrCanceled, C16ErrCanceledW}[g.r.IntN(2)]}
	case 2:
		return C16Event{K: C16TransFail, N: n, D: d, V: g.variant(d), E: c16IgnErrs[g.r.IntN(len(c16IgnErrs))]}
	default:
		return C16Event{K: C16TrafficFail, N: n, D: d, V: g.variant(d), E: c16IgnErrs[g.r.IntN(len(c16IgnErrs))]}
	}
}

func (g *c16Gen) randomEvent() C16Event {
	n := g.r.IntN(len(g.cfg.Nodes))
	d := g.r.IntN(6)
	switch k := g.r.IntN(100); {
	case k < 14:
		return g.success(n, d)
	case k < 26:
		return C16Event{K: C16ProbeFail, N: n, D: d, V: g.variant(d), E: g.failErr(C16ProbeFail)}
	case k < 29:
		return C16Event{K: C16ProbeFail, N: n, D: d, V: g.variant(d), E: []string{C16ErrClosed, C16ErrClosedStr}[g.r.IntN(2)]}
	case k < 41:
		return C16Event{K: C16TrafficOk, N: n, D: d, V: g.variant(d)}
	case k < 55:
		return C16Event{K: C16TrafficFail, N: n, D: d, V: g.variant(d), E: g.failErr(C16TrafficFail)}
	case k < 61:
		return C16Event{K: C16TransFail, N: n, D: d, V: g.variant(d), E: g.failErr(C16TransFail)}
	case k < 69:
		e := C16ErrGeneric
		switch g.r.IntN(8) {
		case 0:
			e = C16ErrNil
		case 1:
			e = C16ErrCanceled
		}
		return C16Event{K: C16Forced, N: n, D: d, V: g.variant(d), E: e}
	case k < 81:
		return g.ignorable(n, d)
	case k < 83:
		return C16Event{K: C16SuppBegin}
	case k < 89:
		return C16Event{K: C16SuppEnd}
	case k < 91:
		return C16Event{K: C16TrackerReset}
	case k < 94:
		return C16Event{K: C16Snapshot, N: n}
	case k < 95:
		return C16Event{K: C16CaptureFB, N: g.r.IntN(len(g.cfg.Groups))}
	case k < 96:
		return C16Event{K: C16RestoreNode, N: n}
	case k < 98:
		return C16Event{K: C16FloorGroup, N: g.r.IntN(len(g.cfg.Groups))}
	default:
		return C16Event{K: C16ReloadBuild}
	}
}

func (g *c16Gen) thresholdRun() {
	n := g.r.IntN(len(g.cfg.Nodes))
	d := g.r.IntN(6)
	kind := C16ProbeFail
	switch k := g.r.IntN(10); {
	case k < 4:
		kind = C16TrafficFail
	case k < 5:
		kind = C16TransFail
	}
	if kind == C16TrafficFail && !C16IsTCP(d) && g.r.IntN(2) == 0 {
		d = g.r.IntN(2) // 50-long runs are expensive; halve their share
	}
	thr := C16Threshold(kind == C16TrafficFail, d)
	if g.r.IntN(10) < 8 {
		g.emit(g.success(n, d)) // start from clean counts
	}
	l := []int{thr - 1, thr, thr + 1, thr - 1, thr}[g.r.IntN(5)]
	if l < 1 {
		l = 1
	}
	for i := 0; i < l; i++ {
		g.emit(C16Event{K: kind, N: n, D: d, V: g.variant(d), E: g.failErr(kind)})
		if g.r.IntN(10) == 0 {
			g.emit(g.ignorable(n, d))
		}
	}
	if g.r.IntN(10) < 7 {
		if g.r.IntN(3) == 0 {
			g.emit(C16Event{K: C16TrafficOk, N: n, D: d, V: g.variant(d)})
		} else {
			g.emit(g.success(n, d))
		}
		if g.r.IntN(2) == 0 {
			g.emit(C16Event{K: kind, N: n, D: d, V: g.variant(d), E: g.failErr(kind)})
		}
	}
}

func (g *c16Gen) escalationRun() {
	byAddr := map[string][]int{}
	for i, nc := range g.cfg.Nodes {
		if nc.Addr != "" {
			byAddr[nc.Addr] = append(byAddr[nc.Addr], i)
		}
	}
	if len(byAddr) == 0 {
		g.thresholdRun()
		return
	}
	addrs := make([]string, 0, len(byAddr))
	for a := range byAddr {
		addrs = append(addrs, a)
	}
	sort.Strings(addrs)
	nodes := byAddr[addrs[g.r.IntN(len(addrs))]]
	type tgt struct{ n, d int }
	var all []tgt
	for _, n := range nodes {
		for d := 0; d < 4; d++ { // tcp4/6 and dns-udp4/6: cheap non-forced deaths
			all = append(all, tgt{n, d})
		}
	}
	g.r.Shuffle(len(all), func(i, j int) { all[i], all[j] = all[j], all[i] })
	k := []int{2, 3, 3, 4}[g.r.IntN(4)]
	if k > len(all) {
		k = len(all)
	}
	ts := all[:k]
	for _, t := range ts {
		g.emit(g.success(t.n, t.d)) // alive and count restarted
	}
	for _, t := range ts {
		reps := C16Threshold(false, t.d)
		for i := 0; i < reps; i++ {
			g.emit(C16Event{K: C16ProbeFail, N: t.n, D: t.d, V: g.variant(t.d), E: g.failErr(C16ProbeFail)})
		}
		if g.r.IntN(8) == 0 {
			g.emit(g.ignorable(t.n, t.d))
		}
	}
	if g.r.IntN(2) == 0 {
		t := ts[g.r.IntN(len(ts))]
		g.emit(g.success(t.n, t.d))
	}
}

func (g *c16Gen) massKill() {
	gi := g.r.IntN(len(g.cfg.Groups))
	all := g.r.IntN(3) != 0
	for _, m := range g.cfg.Groups[gi].Members {
		for d := 0; d < 6; d++ {
			if !all && g.r.IntN(2) == 0 {
				continue
			}
			if C16IsTCP(d) && g.r.IntN(2) == 0 {
				g.emit(C16Event{K: C16ProbeFail, N: m, D: d, E: C16ErrGeneric})
			} else {
				g.emit(C16Event{K: C16Forced, N: m, D: d, E: C16ErrGeneric})
			}
		}
	}
}

func (g *c16Gen) reloadSeq() {
	if g.r.IntN(3) == 0 {
		for i := range g.cfg.Nodes {
			if g.r.IntN(2) == 0 {
				g.emit(C16Event{K: C16Snapshot, N: i})
			}
		}
		for i := g.r.IntN(4); i > 0; i-- {
			g.emit(g.randomEvent())
		}
	}
	if g.r.IntN(3) == 0 {
		g.emit(C16Event{K: C16SuppBegin})
		defer g.emit(C16Event{K: C16SuppEnd})
	}
	if g.r.IntN(3) == 0 {
		g.emit(C16Event{K: C16TrackerReset})
	}
	g.emit(C16Event{K: C16ReloadBuild})
	order := g.r.Perm(len(g.cfg.Groups))
	if g.r.IntN(2) == 0 {
		// control.InheritDialerHealthFrom: per group capture the fallback and restore every dialer;
		// the floors follow once every group has been restored (nodes are shared between groups)
		for _, gi := range order {
			g.emit(C16Event{K: C16CaptureFB, N: gi})
			for _, m := range g.cfg.Groups[gi].Members {
				g.emit(C16Event{K: C16RestoreNode, N: m})
			}
		}
		if g.r.IntN(5) == 0 {
			g.emit(g.randomEvent())
		}
		for _, gi := range order {
			if g.r.IntN(20) < 17 {
				g.emit(C16Event{K: C16FloorGroup, N: gi})
			}
		}
		return
	}
	for _, gi := range order {
		// the primitives in another legal order, one group at a time: capture fallback, restore every dialer, floor
		g.emit(C16Event{K: C16CaptureFB, N: gi})
		for _, m := range g.cfg.Groups[gi].Members {
			g.emit(C16Event{K: C16RestoreNode, N: m})
		}
		if g.r.IntN(5) == 0 {
			g.emit(g.randomEvent())
		}
		if g.r.IntN(20) < 17 {
			g.emit(C16Event{K: C16FloorGroup, N: gi})
		}
	}
}

func (g *c16Gen) suppressionWindow() {
	depth := 1 + g.r.IntN(2)
	for i := 0; i < depth; i++ {
		g.emit(C16Event{K: C16SuppBegin})
	}
	for i := 2 + g.r.IntN(8); i > 0; i-- {
		n, d := g.r.IntN(len(g.cfg.Nodes)), g.r.IntN(6)
		switch g.r.IntN(6) {
		case 0:
			g.emit(C16Event{K: C16Forced, N: n, D: d, E: C16ErrGeneric})
		case 1:
			g.emit(g.success(n, d))
		case 2:
			g.emit(C16Event{K: C16TrafficFail, N: n, D: d, V: g.variant(d), E: g.failErr(C16TrafficFail)})
		default:
			g.emit(C16Event{K: C16ProbeFail, N: n, D: d, V: g.variant(d), E: g.failErr(C16ProbeFail)})
		}
	}
	for i := 0; i < depth; i++ {
		g.emit(C16Event{K: C16SuppEnd})
		if i+1 < depth {
			// still suppressed: one more muted failure
			g.emit(C16Event{K: C16ProbeFail, N: g.r.IntN(len(g.cfg.Nodes)), D: g.r.IntN(2), E: C16ErrGeneric})
		}
	}
	// after the window failures count again
	g.emit(C16Event{K: C16ProbeFail, N: g.r.IntN(len(g.cfg.Nodes)), D: g.r.IntN(6), E: C16ErrGeneric})
}

// C16GenCase draws one configuration and one history of 30..300 events.
func C16GenCase(r *rand.Rand) (C16Config, []C16Event) {
	var cfg C16Config
	nn := 1 + r.IntN(4)
	addrPool := []string{"198.51.100.1:443", "198.51.100.2:443"}[:1+r.IntN(2)]
	for i := 0; i < nn; i++ {
		a := addrPool[r.IntN(len(addrPool))]
		if r.IntN(10) == 0 {
			a = ""
		}
		cfg.Nodes = append(cfg.Nodes, C16NodeCfg{Name: fmt.Sprintf("n%d", i), Addr: a})
	}
	ng := 1 + r.IntN(3)
	policies := []string{"min", "min", "min", "min_avg10", "min_avg10", "min_moving_avg", "min_moving_avg", "random", "random", "fixed"}
	for gi := 0; gi < ng; gi++ {
		gc := C16GroupCfg{Name: fmt.Sprintf("g%d", gi), Policy: policies[r.IntN(len(policies))]}
		for i := 0; i < nn; i++ {
			if r.IntN(2) == 0 {
				gc.Members = append(gc.Members, i)
			}
		}
		if len(gc.Members) == 0 {
			gc.Members = []int{r.IntN(nn)}
		}
		cfg.Groups = append(cfg.Groups, gc)
	}
	for i := 0; i < nn; i++ { // every node belongs to at least one group
		in := false
		for _, gc := range cfg.Groups {
			for _, m := range gc.Members {
				in = in || m == i
			}
		}
		if !in {
			gi := r.IntN(ng)
			cfg.Groups[gi].Members = append(cfg.Groups[gi].Members, i)
			sort.Ints(cfg.Groups[gi].Members)
		}
	}
	for gi := range cfg.Groups {
		gc := &cfg.Groups[gi]
		for range gc.Members {
			gc.AddLatMs = append(gc.AddLatMs, []int{0, 0, 1, 5}[r.IntN(4)])
		}
		if gc.Policy == "fixed" {
			gc.FixedIdx = r.IntN(len(gc.Members))
		}
	}
	cfg.ToleranceMs = []int{0, 0, 2}[r.IntN(3)]

	g := &c16Gen{r: r, cfg: cfg}
	target := 30 + r.IntN(271)
	for len(g.evs) < target {
		switch k := r.IntN(100); {
		case k < 34:
			g.thresholdRun()
		case k < 48:
			g.escalationRun()
		case k < 58:
			g.reloadSeq()
		case k < 64:
			g.suppressionWindow()
		case k < 70:
			g.massKill()
		default:
			for i := 1 + r.IntN(6); i > 0; i-- {
				g.emit(g.randomEvent())
			}
		}
	}
	if len(g.evs) > 300 {
		g.evs = g.evs[:300]
	}
	return cfg, g.evs
}

// C16ConnKey is the documented slot of outbound_connectivity_map:
// outbound_id*6 + domain*2 + ipversion (domain 0=TCP, 1=DNS UDP, 2=data UDP; 0=IPv4, 1=IPv6).
func C16ConnKey(outbound uint8, d int) uint32 {
	domain, ip := 0, 0
	switch d {
	case C16Tcp4:
		domain, ip = 0, 0
	case C16Tcp6:
		domain, ip = 0, 1
	case C16DnsUdp4:
		domain, ip = 1, 0
	case C16DnsUdp6:
		domain, ip = 1, 1
	case C16DataUdp4:
		domain, ip = 2, 0
	case C16DataUdp6:
		domain, ip = 2, 1
	}
	return uint32(outbound)*6 + uint32(domain)*2 + uint32(ip)
}
