package verifkit

// Reference first-match interpreter for dae `dns { routing { request {..}
// response {..} } }` programs and a grammar-directed generator that emits the
// dns section as TEXT plus the AST the text was produced from. Written from
// docs/en/configuration/dns.md and the statement of property C07, standard
// library only: nothing here calls dae's builder, matcher or optimisers.
//
// Documented semantics implemented here:
//   * rules are matched top to bottom, the first rule whose `&&`-joined
//     conditions all hit decides; otherwise the fallback decides;
//   * a condition hits iff (any of its values hits) XOR it is negated;
//   * qname(full|suffix|keyword|regex: pattern) is evaluated on the question
//     name lower-cased without the trailing dot;
//   * qtype(v) takes type names (case-insensitive) or numbers (base 0);
//   * ip(prefix) hits when any A/AAAA answer address is in the prefix (IPv4 as
//     IPv4-mapped IPv6);
//   * upstream(tag) hits when the answer came from that upstream;
//   * request rules using the internal selectors sub()/node()/subnode() "only
//     affect dae's own DNS lookups": for an ordinary question they are skipped.

import (
	"fmt"
	"math/rand/v2"
	"net/netip"
	"strconv"
	"strings"
)

type DUp struct {
	Tag  string
	Host string // IP literal the link points to
	Link string
}

type DRule struct {
	Conds []RCond
	Out   string // upstream tag | asis | reject | accept
}

type DProg struct {
	Upstreams    []DUp
	Req          []DRule
	ReqFallback  string
	Resp         []DRule
	RespFallback string
}

type DQuestion struct {
	Name  string // as put on the wire / handed to the selector
	Qtype uint16
}

// DRR is one answer record.
type DRR struct {
	Type   uint16
	Addr   netip.Addr // A / AAAA
	Target string     // CNAME target / TXT text
}

func (r DRR) String() string {
	switch r.Type {
	case 1, 28:
		return fmt.Sprintf("%d:%s", r.Type, r.Addr)
	}
	return fmt.Sprintf("%d:%s", r.Type, r.Target)
}

// ---- text ------------------------------------------------------------------

func (r DRule) Text() string {
	var cs []string
	for _, c := range r.Conds {
		cs = append(cs, c.Text())
	}
	return strings.Join(cs, " && ") + " -> " + r.Out
}

func (p *DProg) Text() string {
	var sb strings.Builder
	sb.WriteString("dns {\n    upstream {\n")
	for _, u := range p.Upstreams {
		sb.WriteString("        " + u.Tag + ": '" + u.Link + "'\n")
	}
	sb.WriteString("    }\n    routing {\n        request {\n")
	for _, r := range p.Req {
		sb.WriteString("            " + r.Text() + "\n")
	}
	sb.WriteString("            fallback: " + p.ReqFallback + "\n        }\n        response {\n")
	for _, r := range p.Resp {
		sb.WriteString("            " + r.Text() + "\n")
	}
	sb.WriteString("            fallback: " + p.RespFallback + "\n        }\n    }\n}\n")
	return sb.String()
}

func (p *DProg) Clone() *DProg {
	q := &DProg{ReqFallback: p.ReqFallback, RespFallback: p.RespFallback}
	q.Upstreams = append(q.Upstreams, p.Upstreams...)
	cl := func(rs []DRule) []DRule {
		var out []DRule
		for _, r := range rs {
			nr := DRule{Out: r.Out}
			for _, c := range r.Conds {
				nr.Conds = append(nr.Conds, RCond{Func: c.Func, Not: c.Not, Params: append([]RParam(nil), c.Params...)})
			}
			out = append(out, nr)
		}
		return out
	}
	q.Req = cl(p.Req)
	q.Resp = cl(p.Resp)
	return q
}

// ---- reference semantics ---------------------------------------------------

var refQtypeNames = map[string]uint16{
	"a": 1, "ns": 2, "cname": 5, "soa": 6, "ptr": 12, "mx": 15, "txt": 16,
	"aaaa": 28, "srv": 33, "svcb": 64, "https": 65, "any": 255,
}

// RefQtype: documented meaning of one qtype() value.
func RefQtype(v string) (uint16, bool) {
	if t, ok := refQtypeNames[strings.ToLower(v)]; ok {
		return t, true
	}
	n, err := strconv.ParseUint(v, 0, 16)
	if err != nil {
		return 0, false
	}
	return uint16(n), true
}

func IsInternalSelector(fn string) bool {
	return fn == "sub" || fn == "node" || fn == "subnode"
}

func (r DRule) Internal() bool {
	for _, c := range r.Conds {
		if IsInternalSelector(c.Func) {
			return true
		}
	}
	return false
}

func dnsCondHit(c RCond, q DQuestion, ips []netip.Addr, from string) bool {
	any := false
	for _, p := range c.Params {
		hit := false
		switch c.Func {
		case "qname":
			hit = DomainPatternHit(p.Key, p.Val, q.Name)
		case "qtype":
			t, ok := RefQtype(p.Val)
			hit = ok && t == q.Qtype
		case "ip":
			for _, a := range ips {
				if ok, _ := Contains128(p.Val, a); ok {
					hit = true
					break
				}
			}
		case "upstream":
			hit = p.Val == from
		}
		if hit {
			any = true
			break
		}
	}
	return any != c.Not
}

func dnsFirstMatch(rules []DRule, fallback string, q DQuestion, ips []netip.Addr, from string) (string, int) {
	for i, r := range rules {
		if r.Internal() {
			continue
		}
		hit := true
		for _, c := range r.Conds {
			if !dnsCondHit(c, q, ips, from) {
				hit = false
				break
			}
		}
		if hit {
			return r.Out, i
		}
	}
	return fallback, -1
}

// RefDnsRequest: which upstream tag (or asis/reject) an ordinary question goes to.
func RefDnsRequest(p *DProg, q DQuestion) (out string, rule int) {
	return dnsFirstMatch(p.Req, p.ReqFallback, q, nil, "")
}

// RefDnsResponse: accept / reject / upstream tag to ask again.
func RefDnsResponse(p *DProg, q DQuestion, ips []netip.Addr, from string) (out string, rule int) {
	return dnsFirstMatch(p.Resp, p.RespFallback, q, ips, from)
}

func AnswerIPs(rrs []DRR) []netip.Addr {
	var ips []netip.Addr
	for _, r := range rrs {
		if (r.Type == 1 || r.Type == 28) && r.Addr.IsValid() {
			ips = append(ips, r.Addr)
		}
	}
	return ips
}

// DWalk is the expected controller behaviour for one question.
type DWalk struct {
	Calls     []string // upstream tags asked, in order ("asis" = the original resolver)
	Final     string   // request-reject | accept | reject | too-deep
	ReqRule   int
	RespRules []int // deciding response rule per call
	Answer    []DRR // expected answer section (nil for the rejects / too-deep)
}

// RefDnsWalk follows the reference: request rule -> u0; response rule on u0's
// answer -> accept / reject / u1 ...; at most maxCalls upstream calls.
func RefDnsWalk(p *DProg, q DQuestion, book map[string][]DRR, maxCalls int) DWalk {
	var w DWalk
	out, ri := RefDnsRequest(p, q)
	w.ReqRule = ri
	if out == "reject" {
		w.Final = "request-reject"
		return w
	}
	cur := out
	for {
		if len(w.Calls) == maxCalls {
			w.Final = "too-deep"
			return w
		}
		w.Calls = append(w.Calls, cur)
		ans := book[cur]
		ro, rr := RefDnsResponse(p, q, AnswerIPs(ans), cur)
		w.RespRules = append(w.RespRules, rr)
		switch ro {
		case "accept":
			w.Final = "accept"
			w.Answer = ans
			return w
		case "reject":
			w.Final = "reject"
			return w
		}
		cur = ro
	}
}

// ---- generator ---------------------------------------------------------------

type DGen struct {
	R *rand.Rand
	// Internal: emit sub()/node()/subnode() request rules between ordinary ones.
	Internal bool
	// RichInternal: internal selectors with several keys, negation, catch-all forms and
	// neighbouring rules that satisfy the optimiser's merge precondition.
	RichInternal bool
	// LongReq: one program in LongReq gets 34..73 additional request (and sometimes response) rules.
	LongReq int
	MaxReq   int
	MaxResp  int
}

var (
	PoolQtypeVals = []string{"a", "A", "aaaa", "AAAA", "Aaaa", "cname", "CNAME", "https", "65", "28", "0x1c", "1", "01", "txt", "16", "mx", "any", "255", "0", "65535", "svcb"}
	PoolDnsIPs    = []string{"10.0.0.0/8", "10.1.2.3", "192.168.0.0/16", "0.0.0.0", "0.0.0.0/0", "127.0.0.0/8", "::/0", "::", "::1", "fd00::/8", "2001:db8::/32", "2001:db8::1", "::ffff:10.1.0.0/112", "::ffff:0:0/96", "8.8.8.8", "128.0.0.0/1", "8000::/1"}
)

func (g *DGen) pick(pool []string) string { return pool[g.R.IntN(len(pool))] }

func (g *DGen) nvals() int {
	n := 1 + g.R.IntN(3)
	if g.R.IntN(7) == 0 {
		n = 4 + g.R.IntN(3)
	}
	return n
}

func (g *DGen) genCond(fn string, tags []string) RCond {
	c := RCond{Func: fn, Not: g.R.IntN(4) == 0}
	n := g.nvals()
	switch fn {
	case "qname":
		for i := 0; i < n; i++ {
			switch g.R.IntN(4) {
			case 0:
				c.Params = append(c.Params, RParam{"suffix", g.pick(PoolDomSuffix)})
			case 1:
				c.Params = append(c.Params, RParam{"full", g.pick(PoolDomFull)})
			case 2:
				c.Params = append(c.Params, RParam{"keyword", g.pick(PoolDomKeyword)})
			case 3:
				c.Params = append(c.Params, RParam{"regex", g.pick(PoolDomRegex)})
			}
		}
	case "qtype":
		for i := 0; i < n; i++ {
			c.Params = append(c.Params, RParam{"", g.pick(PoolQtypeVals)})
		}
	case "ip":
		for i := 0; i < n; i++ {
			c.Params = append(c.Params, RParam{"", g.pick(PoolDnsIPs)})
		}
	case "upstream":
		if n > len(tags) {
			n = len(tags)
		}
		for i := 0; i < n; i++ {
			c.Params = append(c.Params, RParam{"", g.pick(tags)})
		}
	case "sub", "node", "subnode":
		if g.RichInternal {
			c.Not = g.R.IntN(4) == 0
			c.Params = nil
			var keys [][2][]string // key, value pool
			subTags := [2][]string{{"", "tag"}, {"s1", "s2", "s3"}}
			switch fn {
			case "sub":
				keys = [][2][]string{subTags, {{"tag_regex", "regex"}, {"^s[12]$", "3$"}}, {{"link_keyword"}, {"alpha", "beta"}}, {{"link_regex"}, {"^https://a", "beta$"}}}
			case "node":
				keys = [][2][]string{{{"", "name"}, {"hk-1", "jp-1"}}, {{"name_keyword"}, {"hk", "jp", "-1"}}, {{"name_regex"}, {"^hk", "2$"}}, {{"link_keyword"}, {"alpha", "beta"}}, {{"link_regex"}, {"^ss://", "beta$"}}}
			case "subnode":
				subTags[0] = []string{"", "subtag"}
				keys = [][2][]string{subTags, subTags, {{"subtag_regex", "regex"}, {"^s[12]$", "3$"}}, {{"name"}, {"hk-1", "jp-1"}}, {{"name_keyword"}, {"hk", "jp", "-1"}}, {{"name_keyword"}, {"hk", "jp", "-1"}}, {{"name_regex"}, {"^hk", "2$"}}, {{"link_keyword"}, {"alpha", "beta"}}}
			}
			np := 1 + g.R.IntN(3) // the catch-all forms sub()/node()/subnode() of example.dae are rejected by the parser ("empty parameter list")
			for i := 0; i < np; i++ {
				k := keys[g.R.IntN(len(keys))]
				c.Params = append(c.Params, RParam{g.pick(k[0]), g.pick(k[1])})
			}
			return c
		}
		return g.genPlainInternal(fn, c)
	}
	return c
}

func (g *DGen) genPlainInternal(fn string, c RCond) RCond {
	switch fn {
	case "sub":
		c.Not = false
		c.Params = []RParam{{"", g.pick([]string{"s1", "s2"})}}
	case "node":
		c.Not = false
		c.Params = []RParam{{"name_keyword", g.pick([]string{"hk", "jp"})}}
	case "subnode":
		c.Not = false
		c.Params = []RParam{{"subtag", g.pick([]string{"s1", "s2"})}}
	}
	return c
}

func (g *DGen) genRules(max int, funcs []string, outs []string, tags []string, internal bool) []DRule {
	n := g.R.IntN(max + 1)
	var rules []DRule
	for i := 0; i < n; i++ {
		var r DRule
		if internal && g.RichInternal && len(rules) > 0 && rules[len(rules)-1].Internal() && g.R.IntN(2) == 0 {
			// neighbour sharing selector, negation and target (merge precondition of the optimiser)
			pr := rules[len(rules)-1]
			c := g.genCond(pr.Conds[0].Func, tags)
			c.Not = pr.Conds[0].Not
			r.Conds = []RCond{c}
			r.Out = pr.Out
			rules = append(rules, r)
			continue
		}
		if internal && g.R.IntN(5) == 0 || internal && g.RichInternal && g.R.IntN(3) == 0 {
			fn := g.pick([]string{"sub", "node", "subnode"})
			r.Conds = []RCond{g.genCond(fn, tags)}
			if g.RichInternal && g.R.IntN(4) == 0 {
				r.Conds = append(r.Conds, g.genCond(fn, tags))
			}
			r.Out = g.pick(tags) // internal selectors must target names defined in dns.upstream
			rules = append(rules, r)
			continue
		}
		// neighbour sharing function, negation and target (merge precondition of the optimiser)
		var prev *DRule
		for j := len(rules) - 1; j >= 0 && j >= len(rules)-2; j-- {
			if !rules[j].Internal() {
				prev = &rules[j]
				break
			}
		}
		if prev != nil && g.R.IntN(4) == 0 {
			pc := prev.Conds[g.R.IntN(len(prev.Conds))]
			c := g.genCond(pc.Func, tags)
			c.Not = pc.Not
			if g.R.IntN(5) == 0 {
				c.Not = !c.Not
			}
			r.Conds = []RCond{c}
			r.Out = prev.Out
			if g.R.IntN(6) == 0 {
				r.Out = g.pick(outs)
			}
		} else {
			nc := 1
			switch g.R.IntN(8) {
			case 0, 1:
				nc = 2
			case 2:
				nc = 3
			}
			for j := 0; j < nc; j++ {
				r.Conds = append(r.Conds, g.genCond(g.pick(funcs), tags))
			}
			r.Out = g.pick(outs)
		}
		rules = append(rules, r)
	}
	return rules
}

// Gen produces one dns section.
func (g *DGen) Gen() *DProg {
	p := &DProg{}
	nu := 1 + g.R.IntN(5)
	var tags []string
	for i := 0; i < nu; i++ {
		tag := "u" + strconv.Itoa(i)
		host := "10.9.0." + strconv.Itoa(i+1)
		scheme := g.pick([]string{"udp", "udp", "tcp"})
		if i%2 == 1 && g.R.IntN(3) == 0 {
			host = "fd09::" + strconv.Itoa(i+1)
			p.Upstreams = append(p.Upstreams, DUp{Tag: tag, Host: host, Link: scheme + "://[" + host + "]:53"})
		} else {
			p.Upstreams = append(p.Upstreams, DUp{Tag: tag, Host: host, Link: scheme + "://" + host + ":53"})
		}
		tags = append(tags, tag)
	}
	maxReq, maxResp := g.MaxReq, g.MaxResp
	if maxReq == 0 {
		maxReq = 7
	}
	if maxResp == 0 {
		maxResp = 6
	}
	reqOuts := append([]string{"asis", "reject"}, tags...)
	reqOuts = append(reqOuts, tags...) // bias towards upstreams
	respOuts := append([]string{"accept", "accept", "accept", "reject"}, tags...)
	p.Req = g.genRules(maxReq, []string{"qname", "qname", "qtype"}, reqOuts, tags, g.Internal)
	p.ReqFallback = g.pick(reqOuts)
	switch g.R.IntN(6) {
	case 0:
		// bouncing set: u_i -> u_j -> u_i ... never accepts by itself
		a, b := g.pick(tags), g.pick(tags)
		p.Resp = []DRule{
			{Conds: []RCond{{Func: "upstream", Params: []RParam{{"", a}}}}, Out: b},
			{Conds: []RCond{{Func: "upstream", Params: []RParam{{"", b}}}}, Out: a},
		}
		p.Resp = append(p.Resp, g.genRules(2, []string{"qname", "qtype", "ip", "upstream"}, respOuts, tags, false)...)
		if g.R.IntN(2) == 0 {
			p.Resp[0], p.Resp[len(p.Resp)-1] = p.Resp[len(p.Resp)-1], p.Resp[0]
		}
		p.RespFallback = g.pick(respOuts)
	case 1:
		// chain u0 -> u1 -> u2 ... with an accepting tail
		for i := 0; i+1 < len(tags); i++ {
			p.Resp = append(p.Resp, DRule{Conds: []RCond{{Func: "upstream", Params: []RParam{{"", tags[i]}}}}, Out: tags[i+1]})
		}
		p.RespFallback = g.pick([]string{"accept", "accept", "reject", tags[0]})
	default:
		p.Resp = g.genRules(maxResp, []string{"qname", "qtype", "ip", "ip", "upstream", "upstream"}, respOuts, tags, false)
		p.RespFallback = g.pick([]string{"accept", "accept", "accept", "reject", g.pick(tags)})
	}
	if g.LongReq > 0 && g.R.IntN(g.LongReq) == 0 {
		// long rule lists: more conditions than fit one 32-bit word of the matchers' bitmaps;
		// neighbouring rules alternate their target so that the optimiser cannot merge them
		n := 34 + g.R.IntN(40)
		for i := 0; i < n; i++ {
			out := []string{tags[0], "asis"}[i%2]
			c := RCond{Func: "qname", Params: []RParam{{"full", fmt.Sprintf("h%02d.long.example", i)}}}
			if g.R.IntN(6) == 0 {
				c.Params[0].Key = "suffix"
			}
			rl := DRule{Conds: []RCond{c}, Out: out}
			if g.R.IntN(5) == 0 {
				rl.Conds = append(rl.Conds, RCond{Func: "qtype", Params: []RParam{{"", g.pick([]string{"a", "aaaa", "https"})}}})
			}
			p.Req = append(p.Req, rl)
		}
		if g.R.IntN(2) == 0 {
			for i := 0; i < n; i++ {
				p.Resp = append(p.Resp, DRule{Conds: []RCond{{Func: "qname", Params: []RParam{{"full", fmt.Sprintf("h%02d.long.example", i)}}}}, Out: []string{"reject", "accept"}[i%2]})
			}
		}
	}
	return p
}

// ---- probes --------------------------------------------------------------------

var probeQtypes = []uint16{1, 28, 5, 65, 16, 15, 255, 0, 65535, 64, 2, 12}

func caseMix(s string, r *rand.Rand) string {
	b := []byte(s)
	for i := range b {
		if b[i] >= 'a' && b[i] <= 'z' && r.IntN(2) == 0 {
			b[i] -= 32
		}
	}
	return string(b)
}

// DProbeQuestions derives questions from the constants of a program (boundary
// neighbours of every pattern / type) in case and trailing-dot variants.
func DProbeQuestions(p *DProg, r *rand.Rand, max int) []DQuestion {
	names := []string{"example.com", "www.example.com", "nomatch.test", "a.b.example.com"}
	types := append([]uint16(nil), probeQtypes...)
	scan := func(rules []DRule) {
		for _, rl := range rules {
			for _, c := range rl.Conds {
				for _, pa := range c.Params {
					switch c.Func {
					case "qname":
						v := strings.TrimPrefix(pa.Val, ".")
						if pa.Key == "regex" {
							names = append(names, "www.example.com", "a1.example.org", "exle", "x.com", "www.x1.org")
						} else {
							names = append(names, v, "x."+v, "x"+v, v+"x", "a."+v+".b")
						}
					case "qtype":
						if t, ok := RefQtype(pa.Val); ok {
							types = append(types, t, t+1, t-1)
						}
					}
				}
			}
		}
	}
	scan(p.Req)
	scan(p.Resp)
	var out []DQuestion
	for i := 0; i < max; i++ {
		n := names[r.IntN(len(names))]
		switch r.IntN(6) {
		case 0:
			n = strings.ToUpper(n)
		case 1:
			n = caseMix(n, r)
		}
		if r.IntN(3) != 0 { // names on the wire are fully qualified; also probe the bare form
			n += "."
		}
		if r.IntN(60) == 0 {
			n = "."
		}
		out = append(out, DQuestion{Name: n, Qtype: types[r.IntN(len(types))]})
	}
	return out
}

// DProbeAnswer builds one answer section: addresses at and just outside the
// boundaries of every ip() constant plus fixed hostile values, mixed with
// non-address records.
func DProbeAnswer(p *DProg, q DQuestion, r *rand.Rand) []DRR {
	v4 := []netip.Addr{netip.MustParseAddr("10.1.2.3"), netip.MustParseAddr("8.8.8.8"), netip.MustParseAddr("0.0.0.0"), netip.MustParseAddr("127.0.0.1"), netip.MustParseAddr("93.184.216.34")}
	v6 := []netip.Addr{netip.MustParseAddr("fd00::1"), netip.MustParseAddr("2001:db8::1"), netip.MustParseAddr("::"), netip.MustParseAddr("::1"), netip.MustParseAddr("2606:4700::1111")}
	for _, rl := range p.Resp {
		for _, c := range rl.Conds {
			if c.Func != "ip" {
				continue
			}
			for _, pa := range c.Params {
				for _, a := range AddrsAround(pa.Val) {
					if a.Is4() {
						v4 = append(v4, a)
					} else {
						v6 = append(v6, a)
					}
				}
			}
		}
	}
	var rrs []DRR
	n := r.IntN(4)
	if r.IntN(8) == 0 {
		n = 0 // empty answer
	}
	for i := 0; i < n; i++ {
		k := r.IntN(10)
		switch {
		case k < 1:
			rrs = append(rrs, DRR{Type: 5, Target: "cdn.example.net."})
		case k < 2:
			rrs = append(rrs, DRR{Type: 16, Target: "v=spf1 -all"})
		default:
			want6 := q.Qtype == 28
			if q.Qtype != 1 && q.Qtype != 28 {
				want6 = r.IntN(2) == 0
			}
			if r.IntN(5) == 0 { // any mix of A/AAAA
				want6 = !want6
			}
			if want6 {
				rrs = append(rrs, DRR{Type: 28, Addr: v6[r.IntN(len(v6))]})
			} else {
				rrs = append(rrs, DRR{Type: 1, Addr: v4[r.IntN(len(v4))]})
			}
		}
	}
	return rrs
}

// ShapeSig summarises a dns rule's shape for distinct counting.
func (r DRule) ShapeSig() string {
	var sb strings.Builder
	for _, c := range r.Conds {
		if c.Not {
			sb.WriteByte('!')
		}
		sb.WriteString(c.Func)
		ks := map[string]bool{}
		for _, p := range c.Params {
			ks[p.Key] = true
		}
		w := len(c.Params)
		if w > 3 {
			w = 3
		}
		sb.WriteString(strconv.Itoa(w))
		if len(ks) > 1 {
			sb.WriteString("k")
		}
		sb.WriteByte('&')
	}
	switch r.Out {
	case "asis", "reject", "accept":
		sb.WriteString(">" + r.Out)
	default:
		sb.WriteString(">up")
	}
	return sb.String()
}
