// C14 shared judge (members / order / multiplicity / annotation against the reference) and the
// model + generator of whole group SECTIONS (several groups over one node pool, with per-group
// check-option overrides) used by the `groups` part in package control. Standard library only.
package verifkit

import (
	"fmt"
	"net/url"
	"sort"
	"strings"
	"time"
)

// C14JudgeMembership compares what dae produced for ONE valid group definition (members as pool
// indices in result order, add_latency per member) with the reference. poolOrder lists the pool
// indices in the order of the pool as constructed ("in pool order" refers to that order); nil =
// the order of c.Pool. Returns ("", "") when the case holds.
func C14JudgeMembership(c *C14Case, e *C14Expect, poolOrder []int, members []int, offsets []time.Duration) (sig, what string) {
	if len(poolOrder) == len(c.Pool) && len(e.Members) > 1 {
		rank := make(map[int]int, len(poolOrder))
		for pos, i := range poolOrder {
			rank[i] = pos
		}
		perm := make([]int, len(e.Members))
		for k := range perm {
			perm[k] = k
		}
		sort.SliceStable(perm, func(a, b int) bool { return rank[e.Members[perm[a]]] < rank[e.Members[perm[b]]] })
		e2 := *e
		e2.Members, e2.Offsets, e2.OffsetJudged, e2.WinLine = nil, nil, nil, nil
		for _, k := range perm {
			e2.Members = append(e2.Members, e.Members[k])
			e2.Offsets = append(e2.Offsets, e.Offsets[k])
			e2.OffsetJudged = append(e2.OffsetJudged, e.OffsetJudged[k])
			e2.WinLine = append(e2.WinLine, e.WinLine[k])
		}
		e = &e2
	}
	if len(c.Lines) == 0 {
		if !C14EqualInts(members, e.Members) {
			return "nofilter-not-whole-pool", fmt.Sprintf("filter-less group has members %v, pool has %d nodes", members, len(c.Pool))
		}
	}
	if !C14EqualInts(members, e.Members) {
		kind := "members"
		if C14SameSet(members, e.Members) {
			kind = "order-or-multiplicity"
		} else if len(members) > len(e.Members) {
			kind = "extra-member"
		} else if len(members) < len(e.Members) {
			kind = "missing-member"
		}
		return "membership/" + kind, fmt.Sprintf("members (pool indices) got %v, reference %v", members, e.Members)
	}
	if len(offsets) != len(e.Members) {
		return "malformed-result", fmt.Sprintf("%d members but %d annotations", len(e.Members), len(offsets))
	}
	for k := range e.Members {
		if e.OffsetJudged[k] && offsets[k] != e.Offsets[k] {
			return "annotation-mismatch", fmt.Sprintf("member pool[%d] (first satisfied line %d) carries add_latency %v, reference %v",
				e.Members[k], e.WinLine[k], offsets[k], e.Offsets[k])
		}
	}
	return "", ""
}

func C14EqualInts(a, b []int) bool {
	if len(a) != len(b) {
		return false
	}
	for i := range a {
		if a[i] != b[i] {
			return false
		}
	}
	return true
}

func C14SameSet(a, b []int) bool {
	x, y := map[int]bool{}, map[int]bool{}
	for _, v := range a {
		x[v] = true
	}
	for _, v := range b {
		y[v] = true
	}
	if len(x) != len(y) {
		return false
	}
	for v := range x {
		if !y[v] {
			return false
		}
	}
	return true
}

// ---- group sections ---------------------------------------------------------

// C14Option is one per-group check-option line ("<key>: <val>", val verbatim).
type C14Option struct {
	Key string `json:"key"`
	Val string `json:"val"`
}

// The five options a group may override (config/desc.go, example.dae "Override ... in global").
var C14OptionKeys = []string{"tcp_check_url", "tcp_check_http_method", "udp_check_dns", "check_interval", "check_tolerance"}

var c14OptionVals = map[string][]string{
	"tcp_check_url":         {"'http://127.0.0.1:1/'", "'http://test.steampowered.com'", "'http://cp.cloudflare.com,1.1.1.1,2606:4700:4700::1111'", "'http://cp.cloudflare.com'"},
	"tcp_check_http_method": {"HEAD", "GET", "'GET'", "CONNECT"},
	"udp_check_dns":         {"'dns.google:53'", "'dns.google:53,8.8.8.8,2001:4860:4860::8888'", "'127.0.0.1:5353'"},
	"check_interval":        {"45s", "30s", "1h", "90s", "'2m'", "600s"},
	"check_tolerance":       {"50ms", "1s", "100ms", "'20ms'"},
}

type C14Group struct {
	Name    string      `json:"name"`
	Lines   []C14Line   `json:"lines,omitempty"`
	Policy  string      `json:"policy"`
	Options []C14Option `json:"options,omitempty"`
	// Layout: the order of the body lines: k>=0 filter line k (ascending), -1 the policy line,
	// -2-k option k. Filter lines keep their relative order (the first satisfied line wins).
	Layout []int `json:"layout"`
}

type C14Section struct {
	Pool   []C14Node  `json:"pool"`
	Groups []C14Group `json:"groups"`
}

func (s *C14Section) Clone() *C14Section {
	q := &C14Section{Pool: append([]C14Node(nil), s.Pool...)}
	for gi := range s.Groups {
		g := &s.Groups[gi]
		c := (&C14Case{Lines: g.Lines}).Clone()
		q.Groups = append(q.Groups, C14Group{Name: g.Name, Lines: c.Lines, Policy: g.Policy,
			Options: append([]C14Option(nil), g.Options...), Layout: append([]int(nil), g.Layout...)})
	}
	return q
}

// GroupCase is group gi as a single-group case over the section's pool: what the reference judges.
func (s *C14Section) GroupCase(gi int) *C14Case {
	g := &s.Groups[gi]
	return &C14Case{Pool: s.Pool, Lines: g.Lines, Policy: g.Policy}
}

// normLayout repairs a layout after lines/options were removed (used by the minimiser): every
// body line exactly once, filter lines ascending.
func (g *C14Group) normLayout() {
	var out []int
	seen := map[int]bool{}
	nextLine := 0
	for _, k := range g.Layout {
		switch {
		case k >= 0:
			if nextLine < len(g.Lines) {
				out = append(out, nextLine)
				seen[nextLine] = true
				nextLine++
			}
		case k == -1:
			if !seen[-1] {
				out = append(out, -1)
				seen[-1] = true
			}
		default:
			if o := -2 - k; o < len(g.Options) && !seen[k] {
				out = append(out, k)
				seen[k] = true
			}
		}
	}
	for ; nextLine < len(g.Lines); nextLine++ {
		out = append(out, nextLine)
	}
	if !seen[-1] {
		out = append(out, -1)
	}
	for o := range g.Options {
		if !seen[-2-o] {
			out = append(out, -2-o)
		}
	}
	g.Layout = out
}

func (g *C14Group) Text(indent string) string {
	g.normLayout()
	var b strings.Builder
	b.WriteString(indent + g.Name + " {\n")
	for _, k := range g.Layout {
		switch {
		case k >= 0:
			b.WriteString(indent + "    " + g.Lines[k].Text() + "\n")
		case k == -1:
			b.WriteString(indent + "    policy: " + g.Policy + "\n")
		default:
			o := g.Options[-2-k]
			b.WriteString(indent + "    " + o.Key + ": " + o.Val + "\n")
		}
	}
	b.WriteString(indent + "}\n")
	return b.String()
}

// Text is the whole configuration text (global/routing sections are the minimum the front end
// demands).
func (s *C14Section) Text() string {
	var b strings.Builder
	b.WriteString("global {}\nrouting {\n    fallback: direct\n}\ngroup {\n")
	for gi := range s.Groups {
		b.WriteString(s.Groups[gi].Text("    "))
	}
	b.WriteString("}\n")
	return b.String()
}

const C14PortBase = 20000

// Links renders the pool as subscription tag -> node links: socks5 links parse offline, the node
// name is the link's fragment, pool node i is recognised by its port C14PortBase+i.
func (s *C14Section) Links() map[string][]string {
	m := map[string][]string{}
	for i, n := range s.Pool {
		m[n.Tag] = append(m[n.Tag], fmt.Sprintf("socks5://127.0.0.1:%d#%s", C14PortBase+i, url.PathEscape(n.Name)))
	}
	return m
}

var c14GroupNames = []string{"g0", "proxy", "all_nodes", "hk", "my_group", "steam", "G1", "a_b", "only_a", "fallback_group", "x", "media"}

// subtagLine: a line with one subtag() term (the cross-group interplay this part is after needs
// selections by subscription tag to be frequent), optionally followed by a name() term.
func (g *C14Gen) subtagLine(pool []C14Node) C14Line {
	t := C14Term{Input: "subtag", Not: g.r.IntN(5) < 2}
	for k := 1 + g.r.IntN(2); k > 0; k-- {
		t.Vals = append(t.Vals, g.val(pool, "subtag"))
	}
	l := C14Line{Terms: []C14Term{t}}
	if g.r.IntN(4) == 0 {
		n := C14Term{Input: "name", Not: g.r.IntN(4) == 0, Vals: []C14Val{g.val(pool, "name")}}
		if g.r.IntN(2) == 0 {
			l.Terms = append(l.Terms, n)
		} else {
			l.Terms = []C14Term{n, t}
		}
	}
	if g.r.IntN(3) == 0 {
		l.Anno = []C14Anno{{Key: "add_latency", Val: g.pick(C14GoodDur), Bare: g.r.IntN(2) == 0}}
	}
	return l
}

// sectionPool: like pool(), but never empty and with at least two subscription tags in most
// cases, so that selections by tag are proper subsets.
func (g *C14Gen) sectionPool() []C14Node {
	p := g.pool()
	for len(p) < 2 {
		p = g.pool()
	}
	if g.r.IntN(4) != 0 {
		tags := []string{g.pick(C14Tags), g.pick(C14Tags), g.pick(C14Tags)}
		for i := range p {
			if g.r.IntN(2) == 0 {
				p[i].Tag = tags[g.r.IntN(len(tags))]
			}
		}
	}
	return p
}

// Section generates 2-5 groups over one pool: filter-less groups, groups with 1-4 filter lines
// (same grammar as Gen, plus frequent subtag()/!subtag() lines), 0-3 check-option overrides per
// group, the body lines of a group in random order, groups in random order. injectPct = chance
// per group of injected invalid elements.
func (g *C14Gen) Section(injectPct int) *C14Section {
	s := &C14Section{Pool: g.sectionPool()}
	ng := 2 + g.r.IntN(4)
	names := append([]string(nil), c14GroupNames...)
	g.r.Shuffle(len(names), func(i, j int) { names[i], names[j] = names[j], names[i] })
	for gi := 0; gi < ng; gi++ {
		c := g.genOver(s.Pool, injectPct)
		gr := C14Group{Name: names[gi], Lines: c.Lines, Policy: c.Policy}
		invalid := C14Reference(c).Invalid != ""
		if !invalid {
			switch k := g.r.IntN(10); {
			case k < 3:
				gr.Lines = nil // filter-less
			case k < 6:
				// a subtag line at a random position
				l := g.subtagLine(s.Pool)
				pos := g.r.IntN(len(gr.Lines) + 1)
				gr.Lines = append(gr.Lines[:pos], append([]C14Line{l}, gr.Lines[pos:]...)...)
				if len(gr.Lines) > 1 && g.r.IntN(2) == 0 {
					gr.Lines = []C14Line{l}
				}
			}
		}
		if g.r.IntN(2) == 0 {
			keys := append([]string(nil), C14OptionKeys...)
			g.r.Shuffle(len(keys), func(i, j int) { keys[i], keys[j] = keys[j], keys[i] })
			no := 1
			if g.r.IntN(3) == 0 {
				no = 2 + g.r.IntN(2)
			}
			for _, k := range keys[:no] {
				gr.Options = append(gr.Options, C14Option{Key: k, Val: g.pick(c14OptionVals[k])})
			}
		}
		// layout: filter lines ascending, policy and options dropped in at random positions
		for k := range gr.Lines {
			gr.Layout = append(gr.Layout, k)
		}
		extra := []int{-1}
		for o := range gr.Options {
			extra = append(extra, -2-o)
		}
		for _, x := range extra {
			pos := len(gr.Layout)
			if g.r.IntN(3) == 0 {
				pos = g.r.IntN(len(gr.Layout) + 1)
			}
			gr.Layout = append(gr.Layout[:pos], append([]int{x}, gr.Layout[pos:]...)...)
		}
		s.Groups = append(s.Groups, gr)
	}
	return s
}

// Reductions lists every section that is one step smaller (one group, pool node, filter line,
// term, value, annotation or option removed); used by the minimiser of the `groups` part.
func (s *C14Section) Reductions() []*C14Section {
	var out []*C14Section
	for gi := range s.Groups {
		if len(s.Groups) > 1 {
			q := s.Clone()
			q.Groups = append(q.Groups[:gi], q.Groups[gi+1:]...)
			out = append(out, q)
		}
	}
	for i := range s.Pool {
		if len(s.Pool) > 1 {
			q := s.Clone()
			q.Pool = append(q.Pool[:i], q.Pool[i+1:]...)
			out = append(out, q)
		}
	}
	for gi := range s.Groups {
		g := &s.Groups[gi]
		for li := range g.Lines {
			q := s.Clone()
			qg := &q.Groups[gi]
			qg.Lines = append(qg.Lines[:li], qg.Lines[li+1:]...)
			qg.normLayout()
			out = append(out, q)
			if g.Lines[li].Anno != nil {
				q := s.Clone()
				q.Groups[gi].Lines[li].Anno = nil
				out = append(out, q)
			}
			for ti := range g.Lines[li].Terms {
				if len(g.Lines[li].Terms) > 1 {
					q := s.Clone()
					ts := q.Groups[gi].Lines[li].Terms
					q.Groups[gi].Lines[li].Terms = append(ts[:ti], ts[ti+1:]...)
					out = append(out, q)
				}
				for vi := range g.Lines[li].Terms[ti].Vals {
					if len(g.Lines[li].Terms[ti].Vals) > 1 {
						q := s.Clone()
						vs := q.Groups[gi].Lines[li].Terms[ti].Vals
						q.Groups[gi].Lines[li].Terms[ti].Vals = append(vs[:vi], vs[vi+1:]...)
						out = append(out, q)
					}
				}
			}
		}
		for oi := range g.Options {
			q := s.Clone()
			qg := &q.Groups[gi]
			// keep the layout entries of the remaining options pointing at them
			var lay []int
			for _, k := range qg.Layout {
				switch {
				case k == -2-oi:
				case k < -2-oi:
					lay = append(lay, k+1)
				default:
					lay = append(lay, k)
				}
			}
			qg.Options = append(qg.Options[:oi], qg.Options[oi+1:]...)
			qg.Layout = lay
			out = append(out, q)
		}
	}
	return out
}
