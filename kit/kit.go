// Package verifkit is the shared runtime-monitoring support library for the
// /verif checks. It is injected into dae's module with `go test -overlay` as
// github.com/daeuniverse/dae/verifkit and depends on the standard library only.
package verifkit

import (
	"bufio"
	"crypto/sha256"
	"encoding/hex"
	"encoding/json"
	"fmt"
	"math/rand/v2"
	"os"
	"path/filepath"
	"sort"
	"strconv"
	"strings"
	"sync"
	"time"
)

// ---- environment ---------------------------------------------------------

func VerifDir() string {
	if d := os.Getenv("VERIF_DIR"); d != "" {
		return d
	}
	return "/verif"
}

// BuildDir is where scratch output, replay files and evidence parts go
// (default <verif>/build; VERIF_BUILD overrides it so that concurrent runs
// against scratch trees do not collide).
func BuildDir() string {
	if d := os.Getenv("VERIF_BUILD"); d != "" {
		return d
	}
	return filepath.Join(VerifDir(), "build")
}

// EvidenceDir: default <verif>/evidence; VERIF_EVIDENCE_DIR overrides it (runs
// against mutated scratch trees must not overwrite the committed evidence).
func EvidenceDir() string {
	if d := os.Getenv("VERIF_EVIDENCE_DIR"); d != "" {
		return d
	}
	return filepath.Join(VerifDir(), "evidence")
}

func RepoDir() string {
	if d := os.Getenv("VERIF_REPO"); d != "" {
		return d
	}
	return "/repo"
}

func Seed() uint64 {
	if s := os.Getenv("VERIF_SEED"); s != "" {
		if v, err := strconv.ParseUint(s, 10, 64); err == nil {
			return v
		}
		if v, err := strconv.ParseInt(s, 10, 64); err == nil {
			return uint64(v)
		}
	}
	return 1
}

func Tier() string {
	if os.Getenv("VERIF_TIER") == "thorough" {
		return "thorough"
	}
	return "quick"
}

func Thorough() bool { return Tier() == "thorough" }

// Scale returns q in the quick tier and t in the thorough tier. VERIF_SCALE
// (float) multiplies both, for experiments.
func Scale(q, t int) int {
	n := q
	if Thorough() {
		n = t
	}
	if s := os.Getenv("VERIF_SCALE"); s != "" {
		if f, err := strconv.ParseFloat(s, 64); err == nil && f > 0 {
			n = int(float64(n) * f)
			if n < 1 {
				n = 1
			}
		}
	}
	return n
}

// NewRand gives a PCG stream determined by (VERIF_SEED, stream).
func NewRand(stream uint64) *rand.Rand {
	return rand.New(rand.NewPCG(Seed(), 0x9e3779b97f4a7c15^stream))
}

// ---- monitor -------------------------------------------------------------

type Monitor struct {
	ID    string
	Part  string // sub-monitor name ("" if the property has a single one)
	Level string
	Rule  string

	mu          sync.Mutex
	start       time.Time
	evaluations int64
	distinct    map[string]struct{}
	samples     []any
	maxSamples  int
	counters    map[string]int64
	assumptions []string
	extra       map[string]any
	violations  int
	known       map[string]int
	inconcl     []string
	floor       int
	required    []string // counters that must be > 0
	nreplay     int
	maxReports  int
}

func NewMonitor(id, part, level, rule string) *Monitor {
	// bin/check runs a second, race-detector pass of some properties in the thorough tier: both
	// passes then write evidence parts (VERIF_FORCE_PART), the second under a suffixed part name.
	if sfx := os.Getenv("VERIF_PART_SUFFIX"); sfx != "" {
		if part == "" {
			part = "main"
		}
		part += sfx
	} else if os.Getenv("VERIF_FORCE_PART") != "" && part == "" {
		part = "main"
	}
	m := &Monitor{ID: id, Part: part, Level: level, Rule: rule,
		start: time.Now(), distinct: map[string]struct{}{}, counters: map[string]int64{},
		extra: map[string]any{}, known: map[string]int{}, maxSamples: 5, floor: 2, maxReports: 5}
	return m
}

func (m *Monitor) SetFloor(n int)             { m.floor = n }
func (m *Monitor) Require(counters ...string) { m.required = append(m.required, counters...) }
func (m *Monitor) Assume(s ...string)         { m.assumptions = append(m.assumptions, s...) }

func (m *Monitor) Eval(n int) {
	m.mu.Lock()
	m.evaluations += int64(n)
	m.mu.Unlock()
}

// Distinct records one distinct non-trivial case signature.
func (m *Monitor) Distinct(sig string) {
	m.mu.Lock()
	if len(sig) > 64 {
		h := sha256.Sum256([]byte(sig))
		sig = hex.EncodeToString(h[:12])
	}
	m.distinct[sig] = struct{}{}
	m.mu.Unlock()
}

func (m *Monitor) DistinctCount() int {
	m.mu.Lock()
	defer m.mu.Unlock()
	return len(m.distinct)
}

func (m *Monitor) Count(name string, n int64) {
	m.mu.Lock()
	m.counters[name] += n
	m.mu.Unlock()
}

func (m *Monitor) Counter(name string) int64 {
	m.mu.Lock()
	defer m.mu.Unlock()
	return m.counters[name]
}

func (m *Monitor) Set(name string, v any) {
	m.mu.Lock()
	m.extra[name] = v
	m.mu.Unlock()
}

// Sample keeps up to maxSamples verbatim cases.
func (m *Monitor) Sample(v any) {
	m.mu.Lock()
	if len(m.samples) < m.maxSamples {
		m.samples = append(m.samples, v)
	}
	m.mu.Unlock()
}

func (m *Monitor) WantSample() bool {
	m.mu.Lock()
	defer m.mu.Unlock()
	return len(m.samples) < m.maxSamples
}

func (m *Monitor) Inconclusive(format string, a ...any) {
	s := fmt.Sprintf(format, a...)
	m.mu.Lock()
	m.inconcl = append(m.inconcl, s)
	m.mu.Unlock()
	fmt.Printf("INCONCLUSIVE property=%s %s\n", m.ID, s)
}

func (m *Monitor) Violations() int {
	m.mu.Lock()
	defer m.mu.Unlock()
	return m.violations
}

// Violation reports a property violation with a structural signature (used to
// match known findings) and a witness that is written to a replay file.
// Returns true if it was a new (unlisted) violation.
func (m *Monitor) Violation(signature, what string, witness any) bool {
	kf := loadKnown()
	m.mu.Lock()
	defer m.mu.Unlock()
	for _, k := range kf {
		if k.Property == m.ID && k.Sig == signature {
			m.known[signature]++
			if m.known[signature] == 1 {
				fmt.Printf("KNOWN-FINDING: property=%s sig=%s %s\n", m.ID, signature, k.What)
			}
			return false
		}
	}
	m.violations++
	if m.violations > m.maxReports {
		return true
	}
	m.nreplay++
	dir := filepath.Join(BuildDir(), "replay", m.ID)
	_ = os.MkdirAll(dir, 0o755)
	name := fmt.Sprintf("%s%s-seed%d-%d.json", m.ID, dashPart(m.Part), Seed(), m.nreplay)
	path := filepath.Join(dir, name)
	doc := map[string]any{"property": m.ID, "part": m.Part, "signature": signature, "what": what,
		"seed": Seed(), "tier": Tier(), "witness": witness}
	b, err := json.MarshalIndent(doc, "", " ")
	if err != nil {
		b = []byte(fmt.Sprintf("{\"property\":%q,\"signature\":%q,\"what\":%q,\"witness\":%q}", m.ID, signature, what, fmt.Sprintf("%+v", witness)))
	}
	_ = os.WriteFile(path, b, 0o644)
	fmt.Printf("VIOLATION property=%s replay=%s\n", m.ID, path)
	fmt.Printf("  signature=%s: %s\n", signature, what)
	return true
}

func dashPart(p string) string {
	if p == "" {
		return ""
	}
	return "-" + p
}

// Finish writes the evidence (or evidence part) file and returns the process
// verdict: 0 held, 1 violation, 3 inconclusive.
func (m *Monitor) Finish() int {
	m.mu.Lock()
	defer m.mu.Unlock()
	if len(m.distinct) < m.floor {
		s := fmt.Sprintf("distinct_nontrivial=%d below floor %d", len(m.distinct), m.floor)
		m.inconcl = append(m.inconcl, s)
		fmt.Printf("INCONCLUSIVE property=%s %s\n", m.ID, s)
	}
	for _, r := range m.required {
		if m.counters[r] <= 0 {
			s := fmt.Sprintf("required observation %q never made", r)
			m.inconcl = append(m.inconcl, s)
			fmt.Printf("INCONCLUSIVE property=%s %s\n", m.ID, s)
		}
	}
	cov := map[string]any{
		"evaluations":         m.evaluations,
		"distinct_nontrivial": len(m.distinct),
		"rule":                m.Rule,
		"samples":             m.samples,
		"counters":            m.counters,
	}
	if len(m.samples) == 0 {
		cov["samples"] = []any{}
	}
	for k, v := range m.extra {
		cov[k] = v
	}
	if len(m.known) > 0 {
		cov["known_findings_observed"] = m.known
	}
	if len(m.inconcl) > 0 {
		cov["inconclusive"] = m.inconcl
	}
	ev := map[string]any{
		"property_id": m.ID,
		"tier":        Tier(),
		"seed":        int64(Seed()),
		"level":       m.Level,
		"coverage":    cov,
		"assumptions": m.assumptions,
		"wall_s":      time.Since(m.start).Seconds(),
		"violations":  m.violations,
	}
	if m.assumptions == nil {
		ev["assumptions"] = []string{}
	}
	b, _ := json.MarshalIndent(ev, "", " ")
	var path string
	if m.Part == "" {
		path = filepath.Join(EvidenceDir(), m.ID+".json")
	} else {
		path = filepath.Join(BuildDir(), "parts", m.ID+"."+m.Part+".json")
	}
	_ = os.MkdirAll(filepath.Dir(path), 0o755)
	if err := os.WriteFile(path, b, 0o644); err != nil {
		fmt.Printf("INCONCLUSIVE property=%s cannot write evidence: %v\n", m.ID, err)
		return 3
	}
	fmt.Printf("verif: %s%s tier=%s seed=%d evaluations=%d distinct=%d violations=%d known=%d wall=%.1fs\n",
		m.ID, dashPart(m.Part), Tier(), Seed(), m.evaluations, len(m.distinct), m.violations, len(m.known), time.Since(m.start).Seconds())
	keys := make([]string, 0, len(m.counters))
	for k := range m.counters {
		keys = append(keys, k)
	}
	sort.Strings(keys)
	for _, k := range keys {
		fmt.Printf("  %s=%d\n", k, m.counters[k])
	}
	if m.violations > 0 {
		return 1
	}
	if len(m.inconcl) > 0 {
		return 3
	}
	return 0
}

// ---- known findings -------------------------------------------------------

type Known struct {
	Property, Sig, What string
}

var (
	knownOnce sync.Once
	knownList []Known
)

// known_findings.txt lines:
//
//	known: property=C14 sig=<signature> <what fails>
//	fixed: property=C04 <commit> <what failed>      (suppresses nothing)
func loadKnown() []Known {
	knownOnce.Do(func() {
		f, err := os.Open(filepath.Join(VerifDir(), "known_findings.txt"))
		if err != nil {
			return
		}
		defer f.Close()
		sc := bufio.NewScanner(f)
		for sc.Scan() {
			line := strings.TrimSpace(sc.Text())
			if !strings.HasPrefix(line, "known:") {
				continue
			}
			fs := strings.Fields(strings.TrimPrefix(line, "known:"))
			if len(fs) < 2 || !strings.HasPrefix(fs[0], "property=") || !strings.HasPrefix(fs[1], "sig=") {
				continue
			}
			knownList = append(knownList, Known{
				Property: strings.TrimPrefix(fs[0], "property="),
				Sig:      strings.TrimPrefix(fs[1], "sig="),
				What:     strings.Join(fs[2:], " "),
			})
		}
	})
	return knownList
}

// ---- helpers --------------------------------------------------------------

func Hash(parts ...any) string {
	h := sha256.New()
	for _, p := range parts {
		fmt.Fprintf(h, "%v|", p)
	}
	return hex.EncodeToString(h.Sum(nil)[:10])
}

// Exit is called by TestMain-less monitors at the end of a test function.
type TB interface {
	Fatalf(format string, args ...any)
	Logf(format string, args ...any)
}

func (m *Monitor) Done(t TB) {
	switch m.Finish() {
	case 1:
		t.Fatalf("%s: %d violation(s)", m.ID, m.violations)
	case 3:
		t.Fatalf("%s: inconclusive", m.ID)
	}
}
