package verifkit

// Reference first-match interpreter for dae `routing { ... }` programs and a
// grammar-directed generator that emits the program as TEXT plus the AST the
// text was produced from. Written from docs/en/configuration/routing.md and the
// property statements (C01/C04), standard library only: nothing here calls
// dae's builder, matcher, optimisers or trie.

import (
	"fmt"
	"math/rand/v2"
	"net/netip"
	"regexp"
	"sort"
	"strconv"
	"strings"
)

type RParam struct {
	Key string // as written ("" = bare value)
	Val string
}

type RCond struct {
	Func   string // as written: domain dip sip dport sport l4proto ipversion mac pname dscp ip port
	Not    bool
	Params []RParam
}

type ROut struct {
	Name    string // as written, e.g. g1, must_g1, direct, block, must_rules
	HasMark bool
	MarkTxt string // as written, e.g. 0x800, 12, 010
	MustPar bool   // written as name(must)
}

type RRule struct {
	Conds []RCond
	Out   ROut
}

type RProg struct {
	Rules    []RRule
	Fallback ROut
	// SharedPrefixTwin: the generator planted a pair of conditions sharing their first written values (RGen.SharedPrefix)
	SharedPrefixTwin bool `json:"-"`
}

// RPkt is a packet description.
type RPkt struct {
	Src, Dst netip.AddrPort // both of the same family, never 4in6
	L4       string         // "tcp" | "udp"
	Domain   string
	Pname    string // raw comm, may be longer than 16
	Mac      [6]byte
	Dscp     uint8
}

func (p RPkt) String() string {
	return fmt.Sprintf("%s %v->%v domain=%q pname=%q mac=%x dscp=%d", p.L4, p.Src, p.Dst, p.Domain, p.Pname, p.Mac, p.Dscp)
}

type RDecision struct {
	Outbound string // group name as in the outbound table (must_ prefix stripped)
	Mark     uint32
	Must     bool
	Rule     int // index of deciding rule, -1 = fallback
}

// ---- text ------------------------------------------------------------------

func quoteIfNeeded(v string, force bool) string {
	need := force
	for _, c := range v {
		if !(c >= 'a' && c <= 'z' || c >= 'A' && c <= 'Z' || c >= '0' && c <= '9' || c == '.' || c == '-' || c == '_' || c == '/') {
			need = true
		}
	}
	if v == "" {
		need = true
	}
	if need {
		if strings.Contains(v, "'") {
			return "\"" + v + "\""
		}
		return "'" + v + "'"
	}
	return v
}

func (c RCond) Text() string {
	var sb strings.Builder
	if c.Not {
		sb.WriteByte('!')
	}
	sb.WriteString(c.Func)
	sb.WriteByte('(')
	for i, p := range c.Params {
		if i > 0 {
			sb.WriteString(", ")
		}
		if p.Key != "" {
			sb.WriteString(p.Key)
			sb.WriteString(": ")
		}
		sb.WriteString(quoteIfNeeded(p.Val, false))
	}
	sb.WriteByte(')')
	return sb.String()
}

func (o ROut) Text() string {
	var ps []string
	if o.HasMark {
		ps = append(ps, "mark: "+o.MarkTxt)
	}
	if o.MustPar {
		ps = append(ps, "must")
	}
	if len(ps) == 0 {
		return o.Name
	}
	return o.Name + "(" + strings.Join(ps, ", ") + ")"
}

func (r RRule) Text() string {
	var cs []string
	for _, c := range r.Conds {
		cs = append(cs, c.Text())
	}
	return strings.Join(cs, " && ") + " -> " + r.Out.Text()
}

func (p *RProg) RulesText() string {
	var sb strings.Builder
	for _, r := range p.Rules {
		sb.WriteString("    " + r.Text() + "\n")
	}
	return sb.String()
}

// Text renders the routing section.
func (p *RProg) Text() string {
	return "routing {\n" + p.RulesText() + "    fallback: " + p.Fallback.Text() + "\n}\n"
}

// ---- geodata model ---------------------------------------------------------

type GeoSiteItem struct {
	Kind  string // full | suffix | keyword | regex
	Val   string
	Attrs []string
}

// GeoModel is what the monitor wrote into the .dat files: file -> code -> items.
type GeoModel struct {
	Site map[string]map[string][]GeoSiteItem // e.g. "geosite.dat" -> "cn" -> items
	IP   map[string]map[string][]string      // e.g. "geoip.dat" -> "private" -> prefixes
}

// Geo is consulted by the reference when a param has key geosite/geoip/ext.
var Geo *GeoModel

func lookupFold[T any](m map[string]T, k string) (T, bool) {
	for kk, v := range m {
		if strings.EqualFold(kk, k) {
			return v, true
		}
	}
	var z T
	return z, false
}

// geoExpand returns the plain params a geodata reference stands for.
func geoExpand(fn string, p RParam) ([]RParam, bool) {
	if Geo == nil {
		return nil, false
	}
	file, code := "", p.Val
	switch p.Key {
	case "geosite":
		file = "geosite.dat"
	case "geoip":
		file = "geoip.dat"
	case "ext":
		f, c, ok := strings.Cut(p.Val, ":")
		if !ok {
			return nil, false
		}
		file, code = f, c
		if !strings.HasSuffix(file, ".dat") {
			file += ".dat"
		}
	default:
		return nil, false
	}
	isSite := p.Key == "geosite" || (p.Key == "ext" && fn == "domain")
	var out []RParam
	if isSite {
		code, attr, _ := strings.Cut(code, "@")
		codes, ok := Geo.Site[file]
		if !ok {
			return nil, true
		}
		items, _ := lookupFold(codes, code)
		for _, it := range items {
			if attr != "" {
				hit := false
				for _, a := range it.Attrs {
					if strings.EqualFold(a, attr) {
						hit = true
					}
				}
				if !hit {
					continue
				}
			}
			out = append(out, RParam{it.Kind, it.Val})
		}
		return out, true
	}
	codes, ok := Geo.IP[file]
	if !ok {
		return nil, true
	}
	pfs, _ := lookupFold(codes, code)
	for _, pf := range pfs {
		out = append(out, RParam{"", pf})
	}
	return out, true
}

// HasEmptyExpansion reports whether some condition's values expand to nothing
// (geodata code without members / attribute filter matching nothing). The
// config language does not support empty parameter lists, so such a program
// must be rejected rather than compiled.
func (p *RProg) HasEmptyExpansion() bool {
	for _, r := range p.Rules {
		for _, c := range r.Conds {
			n := 0
			for _, pa := range c.Params {
				if ex, ok := geoExpand(c.Func, pa); ok {
					n += len(ex)
				} else {
					n++
				}
			}
			if n == 0 {
				return true
			}
		}
	}
	return false
}

// ---- reference semantics ------------------------------------------------

func to16(a netip.Addr) [16]byte {
	if a.Is4() {
		b := a.As4()
		var r [16]byte
		r[10], r[11] = 0xff, 0xff
		copy(r[12:], b[:])
		return r
	}
	return a.As16()
}

// Contains128: does prefix text (as written) contain addr, IPv4 treated as
// IPv4-mapped IPv6 (prefix length +96)?
func Contains128(prefixText string, addr netip.Addr) (bool, error) {
	t := prefixText
	if !strings.Contains(t, "/") {
		if strings.Contains(t, ":") {
			t += "/128"
		} else {
			t += "/32"
		}
	}
	pf, err := netip.ParsePrefix(t)
	if err != nil {
		return false, err
	}
	bits := pf.Bits()
	if pf.Addr().Is4() {
		bits += 96
	}
	pa := to16(pf.Addr())
	aa := to16(addr)
	for i := 0; i < bits; i++ {
		if (pa[i/8]>>(7-i%8))&1 != (aa[i/8]>>(7-i%8))&1 {
			return false, nil
		}
	}
	return true, nil
}

func parsePortRangeRef(s string) (lo, hi int, err error) {
	a, b, ok := strings.Cut(s, "-")
	if !ok {
		b = a
	}
	x, err := strconv.ParseUint(a, 10, 16)
	if err != nil {
		return 0, 0, err
	}
	y, err := strconv.ParseUint(b, 10, 16)
	if err != nil {
		return 0, 0, err
	}
	return int(x), int(y), nil
}

// DomainPatternHit: documented meaning of one domain pattern of kind key on name.
func DomainPatternHit(key, pat, name string) bool {
	n := strings.ToLower(strings.TrimSuffix(name, "."))
	switch key {
	case "full":
		return n == pat
	case "", "domain", "suffix":
		if strings.HasPrefix(pat, ".") {
			return strings.HasSuffix(n, pat)
		}
		return n == pat || strings.HasSuffix(n, "."+pat)
	case "keyword", "contains":
		return strings.Contains(n, pat)
	case "regex":
		re, err := regexp.Compile(pat)
		if err != nil {
			return false
		}
		return re.MatchString(n)
	}
	return false
}

func pname16(s string) [16]byte {
	var b [16]byte
	copy(b[:], s)
	return b
}

func condValueHit(c RCond, p RParam, k RPkt) bool {
	if p.Key == "geosite" || p.Key == "geoip" || p.Key == "ext" {
		ps, _ := geoExpand(c.Func, p)
		for _, q := range ps {
			if condValueHit(c, q, k) {
				return true
			}
		}
		return false
	}
	switch c.Func {
	case "domain":
		if k.Domain == "" {
			return false
		}
		return DomainPatternHit(p.Key, p.Val, k.Domain)
	case "dip", "ip":
		ok, _ := Contains128(p.Val, k.Dst.Addr())
		return ok
	case "sip":
		ok, _ := Contains128(p.Val, k.Src.Addr())
		return ok
	case "dport", "port":
		lo, hi, _ := parsePortRangeRef(p.Val)
		return int(k.Dst.Port()) >= lo && int(k.Dst.Port()) <= hi
	case "sport":
		lo, hi, _ := parsePortRangeRef(p.Val)
		return int(k.Src.Port()) >= lo && int(k.Src.Port()) <= hi
	case "l4proto":
		return p.Val == k.L4
	case "ipversion":
		if k.Dst.Addr().Is4() {
			return p.Val == "4"
		}
		return p.Val == "6"
	case "mac":
		var m [6]byte
		parts := strings.Split(p.Val, ":")
		for i := 0; i < 6 && i < len(parts); i++ {
			v, _ := strconv.ParseUint(parts[i], 16, 8)
			m[i] = byte(v)
		}
		return m == k.Mac
	case "pname":
		if k.Pname == "" {
			return false
		}
		return pname16(p.Val) == pname16(k.Pname)
	case "dscp":
		v, _ := strconv.ParseUint(p.Val, 0, 8)
		return uint8(v) == k.Dscp
	}
	return false
}

func CondHit(c RCond, k RPkt) bool {
	any := false
	for _, p := range c.Params {
		if condValueHit(c, p, k) {
			any = true
			break
		}
	}
	if c.Func == "mac" && c.Not && k.Mac == ([6]byte{}) {
		// a negated MAC rule never matches a frame without a MAC
		return false
	}
	return any != c.Not
}

func (o ROut) resolve() (name string, mark uint32, must bool) {
	name = o.Name
	must = o.MustPar
	if strings.HasPrefix(name, "must_") && name != "must_rules" {
		name = strings.TrimPrefix(name, "must_")
		must = true
	}
	if o.HasMark {
		v, _ := strconv.ParseUint(o.MarkTxt, 0, 32)
		mark = uint32(v)
	}
	return
}

// RefRoute: first matching rule, top to bottom; must_rules only sets the
// sticky must flag; fallback when nothing hits.
func RefRoute(p *RProg, k RPkt) RDecision {
	sticky := false
	for i, r := range p.Rules {
		hit := true
		for _, c := range r.Conds {
			if !CondHit(c, k) {
				hit = false
				break
			}
		}
		if !hit {
			continue
		}
		if r.Out.Name == "must_rules" {
			sticky = true
			continue
		}
		n, m, must := r.Out.resolve()
		return RDecision{Outbound: n, Mark: m, Must: must || sticky, Rule: i}
	}
	n, m, must := p.Fallback.resolve()
	return RDecision{Outbound: n, Mark: m, Must: must || sticky, Rule: -1}
}

// ---- generator ------------------------------------------------------------

type RGen struct {
	R *rand.Rand
	// Groups are the user-defined outbound names available (besides direct/block).
	Groups []string
	// Funcs restricts the function alphabet (nil = all 12 incl. aliases).
	Funcs []string
	// NeighbourBias: probability that a rule copies function name, negation and
	// outbound of the previous rule (the optimiser's merge precondition).
	NeighbourBias float64
	// NoDomain/NoRegex etc. let callers trim for particular targets.
	NoRegex    bool
	MaxRules   int
	ExactRules int  // if >0, generate exactly this many rules
	WideOr     bool // allow very wide OR chains (>32 values)
	V6Slash0   bool // include ::/0 in the prefix pool
	KernelSafe bool // restrict to what both kernel and userspace can decide identically
	GeoRefs    bool // emit geosite:/geoip:/ext: references (requires Geo model + files)
	// BadKeyword: now and then a keyword/contains value outside the matcher's alphabet.
	// dae refuses such a program ("char out of range"); callers must accept that refusal
	// (RProg.HasBadKeyword) and judge the decisions only when the build succeeded.
	BadKeyword bool
	// SharedPrefix: one program in three gets a pair of conditions of the same function and
	// negation whose first 3-8 WRITTEN values are textually identical and whose later values
	// differ (anything that memoises, de-duplicates or compares conditions by an abbreviated
	// or truncated rendering confuses exactly such a pair).
	SharedPrefix bool
}

// PoolDomKeywordBad are keyword values the Aho-Corasick automaton cannot hold.
var PoolDomKeywordBad = []string{"Goo.GLE", "Face Book", "ex*mple"}

// HasBadKeyword reports whether a keyword/contains value of p is outside the matcher's alphabet.
func (p *RProg) HasBadKeyword() bool {
	for _, r := range p.Rules {
		for _, c := range r.Conds {
			if c.Func != "domain" {
				continue
			}
			for _, pa := range c.Params {
				if (pa.Key == "keyword" || pa.Key == "contains") && domOutOfAlphabet(pa.Val) {
					return true
				}
			}
		}
	}
	return false
}

var (
	PoolPrefix4      = []string{"0.0.0.0/0", "10.0.0.0/8", "10.1.0.0/16", "10.1.2.3", "10.1.2.2/31", "192.168.0.0/24", "10.1.2.3/8", "128.0.0.0/1", "255.255.255.255"}
	PoolPrefix6      = []string{"::/1", "fd00::/8", "fd00::1", "2001:db8::/32", "2001:db8::2/127", "2001:db8:0:1::/64", "8000::/1", "ffff:ffff:ffff:ffff:ffff:ffff:ffff:ffff"}
	PoolPrefixMapped = []string{"::ffff:10.1.0.0/112", "::ffff:0:0/96", "::ffff:10.1.2.3", "::ffff:a01:204"}
	PoolPorts        = []string{"53", "80", "443", "1-1023", "80-443", "443-8443", "0", "65535", "1024-65535", "53-53"}
	PoolMacs         = []string{"02:42:ac:11:00:02", "02:42:ac:11:00:03", "ff:ff:ff:ff:ff:ff", "00:00:00:00:00:01"}
	PoolPnames       = []string{"curl", "mosdns", "NetworkManager", "sixteen-byte-nam", "sixteen-byte-name-longer", "sixteen-byte-nam2", "c"}
	PoolDscp         = []string{"0", "4", "0x4", "8", "63", "010"}
	PoolDomFull      = []string{"example.com", "www.example.com", "a.b.example.com", "example.org", "ex-ample_1.com", "com", "Up.Example.COM"} // the last one is outside the matcher's alphabet: skipped with a warning, matches nothing
	PoolDomSuffix    = []string{"example.com", ".example.com", "com", "b.example.com", "org", "ample.com", "1.com", "B.Example.org"}
	PoolDomKeyword   = []string{"example", "ple.c", "www", "-", "a.b", "google"}
	PoolDomRegex     = []string{`^www\.`, `\.com$`, `^[a-z]+\.example\.(com|org)$`, `ex.*le`, `^$`, `[0-9]`}
	PoolMarks        = []string{"0", "1", "0x800", "0xffffffff", "255", "010", "4294967295", "0x80000000"}
)

var allFuncs = []string{"domain", "dip", "sip", "dport", "sport", "l4proto", "ipversion", "mac", "pname", "dscp", "ip", "port"}

// domOutOfAlphabet reports whether v has a byte outside the domain matcher's alphabet [0-9a-z-.^_].
func domOutOfAlphabet(v string) bool {
	for i := 0; i < len(v); i++ {
		b := v[i]
		if !(b >= '0' && b <= '9' || b >= 'a' && b <= 'z' || b == '-' || b == '.' || b == '^' || b == '_') {
			return true
		}
	}
	return false
}

func (g *RGen) pick(pool []string) string { return pool[g.R.IntN(len(pool))] }

func (g *RGen) prefixPool() []string {
	var p []string
	p = append(p, PoolPrefix4...)
	p = append(p, PoolPrefix6...)
	p = append(p, PoolPrefixMapped...)
	if g.V6Slash0 {
		p = append(p, "::/0")
	}
	return p
}

func (g *RGen) genCond(fn string) RCond {
	c := RCond{Func: fn, Not: g.R.IntN(4) == 0}
	n := 1 + g.R.IntN(3)
	if g.R.IntN(6) == 0 {
		n = 4 + g.R.IntN(3)
	}
	if g.WideOr && g.R.IntN(25) == 0 {
		n = 33 + g.R.IntN(10)
	}
	switch fn {
	case "domain":
		for i := 0; i < n; i++ {
			if g.GeoRefs && g.R.IntN(4) == 0 {
				c.Params = append(c.Params, g.pickGeoSite())
				continue
			}
			if len(c.Params) > 0 && g.R.IntN(3) == 0 {
				// same value under a different key (dedup/sort must keep both)
				prev := c.Params[g.R.IntN(len(c.Params))]
				if prev.Key != "geosite" && prev.Key != "ext" && prev.Key != "regex" {
					keys := []string{"", "suffix", "full", "keyword", "contains", "domain"}
					if domOutOfAlphabet(prev.Val) {
						// only full/suffix values outside the matcher's alphabet are skipped with a warning; a keyword fails the build
						keys = []string{"", "suffix", "full", "domain"}
					}
					c.Params = append(c.Params, RParam{keys[g.R.IntN(len(keys))], prev.Val})
					continue
				}
			}
			switch g.R.IntN(7) {
			case 0:
				c.Params = append(c.Params, RParam{"", g.pick(PoolDomSuffix)})
			case 1:
				c.Params = append(c.Params, RParam{"suffix", g.pick(PoolDomSuffix)})
			case 2:
				c.Params = append(c.Params, RParam{"full", g.pick(PoolDomFull)})
			case 3:
				if g.BadKeyword && g.R.IntN(8) == 0 {
					c.Params = append(c.Params, RParam{"keyword", g.pick(PoolDomKeywordBad)})
					continue
				}
				c.Params = append(c.Params, RParam{"keyword", g.pick(PoolDomKeyword)})
			case 4:
				if g.NoRegex {
					c.Params = append(c.Params, RParam{"full", g.pick(PoolDomFull)})
				} else {
					c.Params = append(c.Params, RParam{"regex", g.pick(PoolDomRegex)})
				}
			case 5:
				c.Params = append(c.Params, RParam{"contains", g.pick(PoolDomKeyword)})
			case 6:
				c.Params = append(c.Params, RParam{"domain", g.pick(PoolDomSuffix)})
			}
		}
	case "dip", "sip", "ip":
		pool := g.prefixPool()
		for i := 0; i < n; i++ {
			if g.GeoRefs && g.R.IntN(4) == 0 {
				c.Params = append(c.Params, g.pickGeoIP(fn))
				continue
			}
			c.Params = append(c.Params, RParam{"", g.pick(pool)})
		}
	case "dport", "sport", "port":
		for i := 0; i < n; i++ {
			c.Params = append(c.Params, RParam{"", g.pick(PoolPorts)})
		}
	case "l4proto":
		vs := [][]string{{"tcp"}, {"udp"}, {"tcp", "udp"}, {"udp", "tcp"}, {"tcp", "tcp"}}[g.R.IntN(5)]
		for _, v := range vs {
			c.Params = append(c.Params, RParam{"", v})
		}
	case "ipversion":
		vs := [][]string{{"4"}, {"6"}, {"4", "6"}, {"6", "4"}}[g.R.IntN(4)]
		for _, v := range vs {
			c.Params = append(c.Params, RParam{"", v})
		}
	case "mac":
		for i := 0; i < n; i++ {
			c.Params = append(c.Params, RParam{"", g.pick(PoolMacs)})
		}
	case "pname":
		for i := 0; i < n; i++ {
			c.Params = append(c.Params, RParam{"", g.pick(PoolPnames)})
		}
	case "dscp":
		for i := 0; i < n; i++ {
			c.Params = append(c.Params, RParam{"", g.pick(PoolDscp)})
		}
	}
	return c
}

func sortedKeys[T any](m map[string]T) []string {
	var l []string
	for k := range m {
		l = append(l, k)
	}
	sort.Strings(l)
	return l
}

func (g *RGen) pickGeoSite() RParam {
	files := sortedKeys(Geo.Site)
	f := files[g.R.IntN(len(files))]
	codes := sortedKeys(Geo.Site[f])
	code := codes[g.R.IntN(len(codes))]
	if g.R.IntN(4) == 0 {
		code = strings.ToUpper(code)
	}
	if g.R.IntN(4) == 0 {
		code += "@" + []string{"ads", "cn", "ADS"}[g.R.IntN(3)]
	}
	if f == "geosite.dat" {
		return RParam{"geosite", code}
	}
	if g.R.IntN(2) == 0 {
		f = strings.TrimSuffix(f, ".dat")
	}
	return RParam{"ext", f + ":" + code}
}

func (g *RGen) pickGeoIP(fn string) RParam {
	files := sortedKeys(Geo.IP)
	f := files[g.R.IntN(len(files))]
	if fn == "sip" {
		f = "geoip.dat" // ext: is not supported for sip()
	}
	codes := sortedKeys(Geo.IP[f])
	code := codes[g.R.IntN(len(codes))]
	if g.R.IntN(4) == 0 {
		code = strings.ToUpper(code)
	}
	if f == "geoip.dat" {
		return RParam{"geoip", code}
	}
	return RParam{"ext", f + ":" + code}
}

func (g *RGen) genOut(allowMustRules bool) ROut {
	names := []string{"direct", "block"}
	names = append(names, g.Groups...)
	o := ROut{Name: names[g.R.IntN(len(names))]}
	switch g.R.IntN(10) {
	case 0:
		o.Name = "must_" + o.Name
	case 1:
		o.MustPar = true
	case 2:
		if allowMustRules {
			return ROut{Name: "must_rules"}
		}
	}
	if g.R.IntN(4) == 0 {
		o.HasMark = true
		o.MarkTxt = g.pick(PoolMarks)
	}
	return o
}

func (g *RGen) funcs() []string {
	if g.Funcs != nil {
		return g.Funcs
	}
	return allFuncs
}

// Gen produces one routing program.
func (g *RGen) Gen() *RProg {
	max := g.MaxRules
	if max == 0 {
		max = 12
	}
	n := 1 + g.R.IntN(max)
	if g.ExactRules > 0 {
		n = g.ExactRules
	}
	p := &RProg{}
	fs := g.funcs()
	for i := 0; i < n; i++ {
		var r RRule
		if i > 0 && g.R.Float64() < g.NeighbourBias {
			prev := p.Rules[i-1]
			// neighbour sharing function name, negation and outbound
			pc := prev.Conds[g.R.IntN(len(prev.Conds))]
			c := g.genCond(pc.Func)
			c.Not = pc.Not
			if g.R.IntN(5) == 0 {
				c.Not = !c.Not
			}
			r.Conds = []RCond{c}
			if g.R.IntN(4) == 0 {
				r.Conds = append(r.Conds, g.genCond(fs[g.R.IntN(len(fs))]))
			}
			r.Out = prev.Out
			if g.R.IntN(6) == 0 {
				r.Out = g.genOut(true)
			}
		} else {
			nc := 1
			switch g.R.IntN(8) {
			case 0, 1:
				nc = 2
			case 2:
				nc = 3
			case 3:
				nc = 4
			}
			for j := 0; j < nc; j++ {
				r.Conds = append(r.Conds, g.genCond(fs[g.R.IntN(len(fs))]))
			}
			r.Out = g.genOut(true)
		}
		p.Rules = append(p.Rules, r)
	}
	p.Fallback = g.genOut(false)
	if g.SharedPrefix && g.R.IntN(3) == 0 {
		g.addSharedPrefixTwin(p)
	}
	return p
}

// addSharedPrefixTwin: see RGen.SharedPrefix.
func (g *RGen) addSharedPrefixTwin(p *RProg) {
	type pos struct{ r, c int }
	var cand []pos
	for ri, r := range p.Rules {
		for ci, c := range r.Conds {
			switch c.Func {
			case "l4proto", "ipversion":
			default:
				cand = append(cand, pos{ri, ci})
			}
		}
	}
	if len(cand) == 0 {
		return
	}
	at := cand[g.R.IntN(len(cand))]
	c0 := &p.Rules[at.r].Conds[at.c]
	k := 3 + g.R.IntN(6)
	for len(c0.Params) < k {
		c0.Params = append(c0.Params, g.genCond(c0.Func).Params...)
	}
	twin := RCond{Func: c0.Func, Not: c0.Not, Params: append([]RParam(nil), c0.Params[:k]...)}
	// both lists continue differently after the shared prefix
	c0.Params = append(c0.Params[:k:k], g.genCond(c0.Func).Params...)
	twin.Params = append(twin.Params, g.genCond(c0.Func).Params...)
	p.SharedPrefixTwin = true
	r := RRule{Conds: []RCond{twin}, Out: g.genOut(true)}
	if g.R.IntN(3) == 0 {
		r.Conds = append(r.Conds, g.genCond(g.funcs()[g.R.IntN(len(g.funcs()))]))
	}
	ins := at.r + 1 + g.R.IntN(len(p.Rules)-at.r)
	p.Rules = append(p.Rules, RRule{})
	copy(p.Rules[ins+1:], p.Rules[ins:])
	p.Rules[ins] = r
}

// ---- packet generation: boundary neighbours of every constant ----------

func lastAddr(pf netip.Prefix) netip.Addr {
	a := pf.Masked().Addr()
	b := a.AsSlice()
	bits := pf.Bits()
	for i := bits; i < len(b)*8; i++ {
		b[i/8] |= 1 << (7 - i%8)
	}
	r, _ := netip.AddrFromSlice(b)
	return r
}

// AddrsAround returns addresses at and just outside the boundaries of a prefix text.
func AddrsAround(t string) []netip.Addr {
	if !strings.Contains(t, "/") {
		if strings.Contains(t, ":") {
			t += "/128"
		} else {
			t += "/32"
		}
	}
	pf, err := netip.ParsePrefix(t)
	if err != nil {
		return nil
	}
	var out []netip.Addr
	addAll := func(a netip.Addr) {
		a = a.Unmap()
		out = append(out, a)
	}
	m := pf.Masked()
	first, last := m.Addr(), lastAddr(m)
	addAll(first)
	addAll(last)
	addAll(pf.Addr())
	if p := first.Prev(); p.IsValid() {
		addAll(p)
	}
	if n := last.Next(); n.IsValid() {
		addAll(n)
	}
	if pf.Addr().Is4In6() {
		// also the plain IPv6 neighbour just below ::ffff:0:0
		out = append(out, netip.MustParseAddr("::fffe:ffff:ffff"))
	}
	return out
}

// ProbePackets derives packets from the constants of a program (boundary
// values) plus a few random ones.
func ProbePackets(p *RProg, r *rand.Rand, max int) []RPkt {
	v4 := []netip.Addr{netip.MustParseAddr("10.1.2.3"), netip.MustParseAddr("8.8.8.8"), netip.MustParseAddr("0.0.0.0")}
	v6 := []netip.Addr{netip.MustParseAddr("fd00::1"), netip.MustParseAddr("2001:db8::1"), netip.MustParseAddr("::")}
	ports := []uint16{0, 53, 80, 443, 65535}
	domains := []string{"", "example.com"}
	pnames := []string{"", "curl"}
	macs := [][6]byte{{}, {2, 0x42, 0xac, 0x11, 0, 2}}
	dscps := []uint8{0, 4}
	cond := func(c RCond) {
		var params []RParam
		for _, pa := range c.Params {
			if ex, ok := geoExpand(c.Func, pa); ok {
				params = append(params, ex...)
			} else {
				params = append(params, pa)
			}
		}
		for _, pa := range params {
			switch c.Func {
			case "dip", "sip", "ip":
				for _, a := range AddrsAround(pa.Val) {
					if a.Is4() {
						v4 = append(v4, a)
					} else {
						v6 = append(v6, a)
					}
				}
			case "dport", "sport", "port":
				lo, hi, _ := parsePortRangeRef(pa.Val)
				for _, v := range []int{lo - 1, lo, hi, hi + 1} {
					if v >= 0 && v <= 65535 {
						ports = append(ports, uint16(v))
					}
				}
			case "domain":
				v := strings.TrimPrefix(pa.Val, ".")
				switch pa.Key {
				case "regex":
					domains = append(domains, "www.example.com", "a1.example.org", "exle", "x.com")
				default:
					domains = append(domains, v, "x."+v, "x"+v, v+"x", strings.ToUpper(v), v+".", "a."+v+".b")
				}
			case "mac":
				var m [6]byte
				for i, s := range strings.Split(pa.Val, ":") {
					if i < 6 {
						x, _ := strconv.ParseUint(s, 16, 8)
						m[i] = byte(x)
					}
				}
				m2 := m
				m2[5] ^= 1
				macs = append(macs, m, m2)
			case "pname":
				v := pa.Val
				pnames = append(pnames, v)
				if len(v) > 16 {
					pnames = append(pnames, v[:16], v[:15])
				} else if len(v) == 16 {
					pnames = append(pnames, v+"x", v[:15])
				} else {
					pnames = append(pnames, v+"x")
				}
			case "dscp":
				x, _ := strconv.ParseUint(pa.Val, 0, 8)
				dscps = append(dscps, uint8(x), uint8(x+1))
			}
		}
	}
	for _, rl := range p.Rules {
		for _, c := range rl.Conds {
			cond(c)
		}
	}
	pickA := func(l []netip.Addr) netip.Addr { return l[r.IntN(len(l))] }
	var out []RPkt
	for i := 0; i < max; i++ {
		var k RPkt
		if r.IntN(2) == 0 {
			k.Src = netip.AddrPortFrom(pickA(v4), ports[r.IntN(len(ports))])
			k.Dst = netip.AddrPortFrom(pickA(v4), ports[r.IntN(len(ports))])
		} else {
			k.Src = netip.AddrPortFrom(pickA(v6), ports[r.IntN(len(ports))])
			k.Dst = netip.AddrPortFrom(pickA(v6), ports[r.IntN(len(ports))])
		}
		k.L4 = []string{"tcp", "udp"}[r.IntN(2)]
		k.Domain = domains[r.IntN(len(domains))]
		k.Pname = pnames[r.IntN(len(pnames))]
		k.Mac = macs[r.IntN(len(macs))]
		k.Dscp = dscps[r.IntN(len(dscps))]
		out = append(out, k)
	}
	return out
}

// ShapeSig summarises a rule's shape for distinct counting.
func (r RRule) ShapeSig() string {
	var sb strings.Builder
	for _, c := range r.Conds {
		if c.Not {
			sb.WriteByte('!')
		}
		sb.WriteString(c.Func)
		w := len(c.Params)
		if w > 3 {
			w = 3
		}
		sb.WriteString(strconv.Itoa(w))
		sb.WriteByte('&')
	}
	o := r.Out
	switch {
	case o.Name == "must_rules":
		sb.WriteString(">MR")
	case strings.HasPrefix(o.Name, "must_"):
		sb.WriteString(">M_")
	case o.MustPar:
		sb.WriteString(">(M)")
	default:
		sb.WriteString(">o")
	}
	if o.HasMark {
		sb.WriteString("+mark")
	}
	return sb.String()
}
