package verifkit

// Frame builder for the datapath monitors (C03, C19): Ethernet / raw-L3, IPv4
// (options, fragments), IPv6 (extension headers, fragment header), TCP, UDP,
// ICMPv6, others; arbitrary truncation. Checksums are not computed (tproxy.c
// never verifies them).

import (
	"encoding/binary"
	"fmt"
	"net/netip"
)

type ExtHdr struct {
	Type    uint8  // 0 hop-by-hop, 43 routing, 60 dstopts, 44 fragment, 59 none
	Len8    uint8  // hdr ext len field (units of 8 bytes, not counting the first 8)
	FragOff uint16 // for fragment header: offset field (in 8-byte units <<3) | M flag
}

type Frame struct {
	L2                 bool
	SrcMac             [6]byte
	DstMac             [6]byte
	Src, Dst           netip.Addr // same family
	Proto              uint8      // 6 tcp, 17 udp, 58 icmpv6, else raw
	Sport              uint16
	Dport              uint16
	Syn, Ack, Fin, Rst bool
	Dscp               uint8
	IHL                uint8  // IPv4 header length in words (5..15); 0 = 5
	FragOff            uint16 // IPv4 fragment offset (13 bits) ; non-zero => non-first fragment
	MF                 bool
	Ext                []ExtHdr // IPv6 extension chain before the transport header
	Icmp6Type          uint8
	Payload            int
	Truncate           int // if >0, cut the frame to this many bytes
}

func (f *Frame) V6() bool { return f.Src.Is6() && !f.Src.Is4In6() }

// EtherType in host order.
func (f *Frame) EtherType() uint16 {
	if f.V6() {
		return 0x86DD
	}
	return 0x0800
}

// SkbProtocol is skb->protocol as the kernel stores it: htons(ETH_P_*) seen as a host u32.
func (f *Frame) SkbProtocol() uint32 {
	var b [2]byte
	binary.BigEndian.PutUint16(b[:], f.EtherType())
	return uint32(binary.NativeEndian.Uint16(b[:]))
}

func (f *Frame) transport() []byte {
	switch f.Proto {
	case 6:
		b := make([]byte, 20+f.Payload)
		binary.BigEndian.PutUint16(b[0:], f.Sport)
		binary.BigEndian.PutUint16(b[2:], f.Dport)
		binary.BigEndian.PutUint32(b[4:], 0x01020304)
		b[12] = 5 << 4
		var fl byte
		if f.Fin {
			fl |= 0x01
		}
		if f.Syn {
			fl |= 0x02
		}
		if f.Rst {
			fl |= 0x04
		}
		if f.Ack {
			fl |= 0x10
		}
		b[13] = fl
		binary.BigEndian.PutUint16(b[14:], 65535)
		return b
	case 17:
		b := make([]byte, 8+f.Payload)
		binary.BigEndian.PutUint16(b[0:], f.Sport)
		binary.BigEndian.PutUint16(b[2:], f.Dport)
		binary.BigEndian.PutUint16(b[4:], uint16(8+f.Payload))
		return b
	case 58:
		b := make([]byte, 8+f.Payload)
		b[0] = f.Icmp6Type
		return b
	default:
		return make([]byte, 8+f.Payload)
	}
}

// Bytes renders the frame.
func (f *Frame) Bytes() []byte {
	var out []byte
	if f.L2 {
		out = append(out, f.DstMac[:]...)
		out = append(out, f.SrcMac[:]...)
		out = binary.BigEndian.AppendUint16(out, f.EtherType())
	}
	tp := f.transport()
	if !f.V6() {
		ihl := f.IHL
		if ihl < 5 {
			ihl = 5
		}
		h := make([]byte, int(ihl)*4)
		h[0] = 4<<4 | ihl
		h[1] = f.Dscp << 2
		binary.BigEndian.PutUint16(h[2:], uint16(len(h)+len(tp)))
		fo := f.FragOff & 0x1fff
		if f.MF {
			fo |= 0x2000
		}
		binary.BigEndian.PutUint16(h[6:], fo)
		h[8] = 64
		h[9] = f.Proto
		s, d := f.Src.As4(), f.Dst.As4()
		copy(h[12:], s[:])
		copy(h[16:], d[:])
		for i := 20; i < len(h); i++ {
			h[i] = 1 // NOP options
		}
		out = append(out, h...)
		out = append(out, tp...)
	} else {
		h := make([]byte, 40)
		h[0] = 6<<4 | f.Dscp>>2
		h[1] = (f.Dscp & 3) << 6
		next := f.Proto
		if len(f.Ext) > 0 {
			next = f.Ext[0].Type
		}
		h[6] = next
		h[7] = 64
		s, d := f.Src.As16(), f.Dst.As16()
		copy(h[8:], s[:])
		copy(h[24:], d[:])
		var ext []byte
		for i, e := range f.Ext {
			nx := f.Proto
			if i+1 < len(f.Ext) {
				nx = f.Ext[i+1].Type
			}
			if e.Type == 44 {
				b := make([]byte, 8)
				b[0] = nx
				binary.BigEndian.PutUint16(b[2:], e.FragOff)
				binary.BigEndian.PutUint32(b[4:], 0xdeadbeef)
				ext = append(ext, b...)
				continue
			}
			if e.Type == 59 {
				// "no next header": nothing follows
				break
			}
			b := make([]byte, (int(e.Len8)+1)*8)
			b[0] = nx
			b[1] = e.Len8
			ext = append(ext, b...)
		}
		binary.BigEndian.PutUint16(h[4:], uint16(len(ext)+len(tp)))
		out = append(out, h...)
		out = append(out, ext...)
		out = append(out, tp...)
	}
	if f.Truncate > 0 && f.Truncate < len(out) {
		out = out[:f.Truncate]
	}
	return out
}

func (f *Frame) String() string {
	l := "L3"
	if f.L2 {
		l = fmt.Sprintf("L2 %x>%x", f.SrcMac, f.DstMac)
	}
	fl := ""
	if f.Syn {
		fl += "S"
	}
	if f.Ack {
		fl += "A"
	}
	if f.Fin {
		fl += "F"
	}
	if f.Rst {
		fl += "R"
	}
	return fmt.Sprintf("%s proto=%d %v:%d->%v:%d [%s] dscp=%d ihl=%d frag=%d mf=%v ext=%v trunc=%d pay=%d",
		l, f.Proto, f.Src, f.Sport, f.Dst, f.Dport, fl, f.Dscp, f.IHL, f.FragOff, f.MF, f.Ext, f.Truncate, f.Payload)
}
