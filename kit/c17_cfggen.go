package verifkit

// C17: generator for the dae configuration LANGUAGE (not only routing
// sections). It keeps the AST every text is rendered from, renders the AST
// as a token list, lays the tokens out with arbitrary whitespace / comments,
// and produces the canonical dump the parsed result must equal. Written from
// the grammar (dae_config.g4 rule names / token literals) and
// docs/en/configuration/*.md + example.dae; standard library only, nothing
// here calls dae.

import (
	"fmt"
	"math/rand/v2"
	"strconv"
	"strings"
)

// ---- AST -------------------------------------------------------------------

// CLit is one literal: Q==0 bare, '\” or '"' quoted.
type CLit struct {
	V string
	Q byte
}

// CPar is one parameter of a function or annotation: `key: lit` or `lit`.
type CPar struct {
	Key string
	L   CLit
}

type CFn struct {
	Not  bool
	Name string
	Pars []CPar
}

const (
	CRule   = "rule"   // f(..) && !g(..) -> out | out(..)
	CDecl   = "decl"   // key: lit, lit [anno]
	CDeclFn = "declfn" // key: f(..) && g(..) [anno]
	CLitIt  = "lit"    // lit
	CSecIt  = "sec"    // name { ... }
)

type CItem struct {
	Kind string

	Conds   []CFn // rule
	Out     CFn   // rule
	OutBare bool  // rule: outbound written as a bare literal

	Key     string // decl, declfn
	Lits    []CLit // decl
	Fns     []CFn  // declfn
	HasAnno bool   // decl, declfn: `[ ... ]` written
	Anno    []CPar

	Lit CLit  // lit
	Sec *CSec // sec
}

type CSec struct {
	Name  string
	Items []*CItem
}

type CDoc struct {
	Secs []*CSec
	// MayReject: the text uses a production the grammar allows but dae documents
	// no meaning for (empty parameter list, empty annotation): rejection with an
	// error is as good as a faithful parse.
	MayReject bool
}

// ---- lexical facts (from the lexer rules) -----------------------------------

func cIDHead(c byte) bool { return c >= 'a' && c <= 'z' || c >= 'A' && c <= 'Z' || c == '_' }
func cNonIDHead(c byte) bool {
	return c >= '0' && c <= '9' || strings.IndexByte(`*+-./\^`, c) >= 0
}
func cRest(c byte) bool {
	return cIDHead(c) || c >= '0' && c <= '9' || strings.IndexByte("!#$%*+-./=@\\^", c) >= 0
}

// CBareOK: can v be written as ONE bare literal (ID or NON_ID)?
func CBareOK(v string) bool {
	if v == "" || !(cIDHead(v[0]) || cNonIDHead(v[0])) {
		return false
	}
	for i := 1; i < len(v); i++ {
		if !cRest(v[i]) {
			return false
		}
	}
	if strings.HasPrefix(v, "/*") { // would open a block comment
		return false
	}
	// "->" is its own token; a NON_ID starting with "->" would be lexed as the arrow
	if strings.HasPrefix(v, "->") {
		return false
	}
	return true
}

// CIDOK: can v be written as an ID (section name, key, function name)?
func CIDOK(v string) bool { return CBareOK(v) && cIDHead(v[0]) }

// CQuoteOK: can v be written inside quote q without changing meaning?
func CQuoteOK(v string, q byte) bool {
	if strings.IndexByte(v, q) >= 0 {
		return false
	}
	// a backslash next to the closing quote is lexed context-dependently: avoid
	if strings.HasSuffix(v, `\`) {
		return false
	}
	return true
}

// MkLit chooses a spelling for value v: bare when possible (unless force), else quoted.
func MkLit(r *rand.Rand, v string, forceQuote bool) CLit {
	if !forceQuote && CBareOK(v) && r.IntN(5) != 0 {
		return CLit{V: v}
	}
	qs := []byte{'\'', '"'}
	if r.IntN(2) == 0 {
		qs[0], qs[1] = qs[1], qs[0]
	}
	for _, q := range qs {
		if CQuoteOK(v, q) {
			return CLit{V: v, Q: q}
		}
	}
	// not representable: drop the offending characters
	v = strings.NewReplacer("'", "", `\`, "").Replace(v)
	return CLit{V: v, Q: '\''}
}

func (l CLit) Text() string {
	if l.Q == 0 {
		return l.V
	}
	return string(l.Q) + l.V + string(l.Q)
}

// ---- tokens ----------------------------------------------------------------

type CTok struct {
	T string
	K byte // 'b' bare, 'q' quoted, 'p' punctuation
}

func pt(s string) CTok { return CTok{s, 'p'} }
func lt(l CLit) CTok {
	if l.Q == 0 {
		return CTok{l.V, 'b'}
	}
	return CTok{l.Text(), 'q'}
}

func parToks(ps []CPar, out []CTok) []CTok {
	for i, p := range ps {
		if i > 0 {
			out = append(out, pt(","))
		}
		if p.Key != "" {
			out = append(out, CTok{p.Key, 'b'}, pt(":"))
		}
		out = append(out, lt(p.L))
	}
	return out
}

func fnToks(f CFn, out []CTok) []CTok {
	if f.Not {
		out = append(out, pt("!"))
	}
	out = append(out, CTok{f.Name, 'b'}, pt("("))
	out = parToks(f.Pars, out)
	return append(out, pt(")"))
}

func (it *CItem) toks(out []CTok) []CTok {
	switch it.Kind {
	case CRule:
		for i, c := range it.Conds {
			if i > 0 {
				out = append(out, pt("&&"))
			}
			out = fnToks(c, out)
		}
		out = append(out, pt("->"))
		if it.OutBare {
			out = append(out, CTok{it.Out.Name, 'b'})
		} else {
			out = fnToks(it.Out, out)
		}
	case CDecl:
		out = append(out, CTok{it.Key, 'b'}, pt(":"))
		for i, l := range it.Lits {
			if i > 0 {
				out = append(out, pt(","))
			}
			out = append(out, lt(l))
		}
	case CDeclFn:
		out = append(out, CTok{it.Key, 'b'}, pt(":"))
		for i, f := range it.Fns {
			if i > 0 {
				out = append(out, pt("&&"))
			}
			out = fnToks(f, out)
		}
	case CLitIt:
		out = append(out, lt(it.Lit))
	case CSecIt:
		out = it.Sec.toks(out)
	}
	if (it.Kind == CDecl || it.Kind == CDeclFn) && it.HasAnno {
		out = append(out, pt("["))
		out = parToks(it.Anno, out)
		out = append(out, pt("]"))
	}
	return out
}

func (s *CSec) toks(out []CTok) []CTok {
	out = append(out, CTok{s.Name, 'b'}, pt("{"))
	for _, it := range s.Items {
		out = it.toks(out)
	}
	return append(out, pt("}"))
}

func (d *CDoc) Tokens() []CTok {
	var out []CTok
	for _, s := range d.Secs {
		out = s.toks(out)
	}
	return out
}

func loosePunct(t CTok) bool {
	return t.K == 'p' && len(t.T) == 1 && strings.IndexByte("{}()[]:,", t.T[0]) >= 0
}

var cCommentBodies = []string{"", " note", " { } -> && ! ( ) [ ] : , ", " 'unbalanced", ` "x" 'y' `, " fallback: block", " dip(1.1.1.1) -> direct()", " é 中", " /* # "}

func cSep(r *rand.Rand, required bool, style int) string {
	if style == 0 { // plain
		if required {
			return " "
		}
		return ""
	}
	if !required && r.IntN(3) == 0 {
		return ""
	}
	switch r.IntN(14) {
	case 0, 1, 2, 3:
		return " "
	case 4, 5:
		return "\n"
	case 6:
		return "\t"
	case 7:
		return "\r\n"
	case 8:
		return "\n\n    "
	case 9, 10:
		return " #" + strings.ReplaceAll(cCommentBodies[r.IntN(len(cCommentBodies))], "\n", " ") + "\n"
	case 11, 12:
		b := strings.ReplaceAll(cCommentBodies[r.IntN(len(cCommentBodies))], "*/", "* /")
		// a block comment must be followed by whitespace: "/**/x" is one NON_ID token (longest match)
		return " /*" + b + "*/" + []string{" ", "\n", "\t"}[r.IntN(3)]
	default:
		return "  \t "
	}
}

// Layout joins tokens. style 0: minimal single spaces; 1: arbitrary whitespace
// and comments wherever the lexer allows them.
func Layout(toks []CTok, r *rand.Rand, style int) string {
	var sb strings.Builder
	if style != 0 && r.IntN(3) == 0 {
		sb.WriteString(cSep(r, false, style))
	}
	for i, t := range toks {
		if i > 0 {
			p := toks[i-1]
			req := !(loosePunct(p) || loosePunct(t) || (p.K == 'p' && p.T == "!"))
			sb.WriteString(cSep(r, req, style))
		}
		sb.WriteString(t.T)
	}
	if style != 0 {
		sb.WriteString(cSep(r, false, style))
	} else {
		sb.WriteString("\n")
	}
	return sb.String()
}

// Pretty renders one item per line (used for readable witnesses / include files).
func (d *CDoc) Pretty() string {
	var sb strings.Builder
	for _, s := range d.Secs {
		s.pretty(&sb, 0)
	}
	return sb.String()
}

func (s *CSec) pretty(sb *strings.Builder, ind int) {
	pad := strings.Repeat("    ", ind)
	sb.WriteString(pad + s.Name + " {\n")
	for _, it := range s.Items {
		if it.Kind == CSecIt {
			it.Sec.pretty(sb, ind+1)
			continue
		}
		sb.WriteString(pad + "    " + Layout(it.toks(nil), nil, 0))
	}
	sb.WriteString(pad + "}\n")
}

// ---- canonical dump (what the parse result must equal) -----------------------

func dumpPars(ps []CPar) string {
	var l []string
	for _, p := range ps {
		l = append(l, strconv.Quote(p.Key)+"="+strconv.Quote(p.L.V))
	}
	return strings.Join(l, ",")
}

func dumpFn(f CFn) string {
	s := ""
	if f.Not {
		s = "!"
	}
	return s + strconv.Quote(f.Name) + "(" + dumpPars(f.Pars) + ")"
}

func dumpFns(fs []CFn) string {
	var l []string
	for _, f := range fs {
		l = append(l, dumpFn(f))
	}
	return strings.Join(l, " && ")
}

func (it *CItem) dump(sb *strings.Builder, ind int) {
	pad := strings.Repeat(" ", ind)
	anno := func() string {
		if !it.HasAnno || len(it.Anno) == 0 {
			return ""
		}
		return " [" + dumpPars(it.Anno) + "]"
	}
	switch it.Kind {
	case CRule:
		out := it.Out
		if it.OutBare {
			out = CFn{Name: it.Out.Name}
		}
		sb.WriteString(pad + "R " + dumpFns(it.Conds) + " -> " + dumpFn(out) + "\n")
	case CDecl:
		var vs []string
		for _, l := range it.Lits {
			vs = append(vs, l.V)
		}
		// a value list `a, b` is documented as equivalent to 'a,b'
		sb.WriteString(pad + "D " + strconv.Quote(it.Key) + " = " + strconv.Quote(strings.Join(vs, ",")) + anno() + "\n")
	case CDeclFn:
		sb.WriteString(pad + "F " + strconv.Quote(it.Key) + " = " + dumpFns(it.Fns) + anno() + "\n")
	case CLitIt:
		sb.WriteString(pad + "L " + strconv.Quote(it.Lit.V) + "\n")
	case CSecIt:
		it.Sec.dump(sb, ind)
	}
}

func (s *CSec) dump(sb *strings.Builder, ind int) {
	pad := strings.Repeat(" ", ind)
	sb.WriteString(pad + "S " + strconv.Quote(s.Name) + " {\n")
	for _, it := range s.Items {
		it.dump(sb, ind+1)
	}
	sb.WriteString(pad + "}\n")
}

func (s *CSec) Dump() string {
	var sb strings.Builder
	s.dump(&sb, 0)
	return sb.String()
}

func (d *CDoc) Dump() string {
	var sb strings.Builder
	for _, s := range d.Secs {
		s.dump(&sb, 0)
	}
	return sb.String()
}

// Shape is the dump with every value replaced by its kind: used to count
// structurally distinct accepted texts.
func (d *CDoc) Shape() string {
	var sb strings.Builder
	var sec func(s *CSec)
	fn := func(f CFn) {
		if f.Not {
			sb.WriteByte('!')
		}
		sb.WriteString("f(")
		for _, p := range f.Pars {
			if p.Key != "" {
				sb.WriteByte('k')
			}
			sb.WriteByte("bqQ"[qIdx(p.L.Q)])
		}
		sb.WriteByte(')')
	}
	sec = func(s *CSec) {
		sb.WriteString("S{")
		for _, it := range s.Items {
			switch it.Kind {
			case CRule:
				for _, c := range it.Conds {
					fn(c)
				}
				sb.WriteString(">")
				if it.OutBare {
					sb.WriteByte('b')
				} else {
					fn(it.Out)
				}
			case CDecl:
				sb.WriteString("D")
				for _, l := range it.Lits {
					sb.WriteByte("bqQ"[qIdx(l.Q)])
				}
			case CDeclFn:
				sb.WriteString("F")
				for _, f := range it.Fns {
					fn(f)
				}
			case CLitIt:
				sb.WriteString("L")
				sb.WriteByte("bqQ"[qIdx(it.Lit.Q)])
			case CSecIt:
				sec(it.Sec)
			}
			if it.HasAnno {
				sb.WriteString("[" + strconv.Itoa(len(it.Anno)) + "]")
			}
			sb.WriteByte(';')
		}
		sb.WriteString("}")
	}
	for _, s := range d.Secs {
		sec(s)
	}
	return sb.String()
}

func qIdx(q byte) int {
	switch q {
	case '\'':
		return 1
	case '"':
		return 2
	}
	return 0
}

// ---- value pools ---------------------------------------------------------------

var (
	cNames     = []string{"global", "routing", "dns", "group", "node", "subscription", "include", "request", "response", "upstream", "foo", "x1", "_a", "Sec-1", "a.b", "fixed_domain_ttl", "my_group", "G", "must_rules"}
	cKeys      = []string{"fallback", "policy", "filter", "log_level", "tproxy_port", "k", "key_2", "a-b", "geosite", "geoip", "suffix", "full", "mark", "add_latency", "x.y", "K", "_"}
	cFuncs     = []string{"domain", "dip", "sip", "dport", "sport", "l4proto", "ipversion", "mac", "pname", "dscp", "qname", "qtype", "upstream", "ip", "name", "subtag", "fixed", "direct", "block", "f", "g_1", "must_rules", "min", "random"}
	cBareVals  = []string{"direct", "block", "info", "true", "12345", "30s", "-500ms", "1.1.1.1", "10.0.0.0/8", "443", "1-1023", "0x800", "geosite:cn", "config.d/*.dae", "../x.dae", "/etc/dae/config.d/*.dae", "a", "tcp", "udp", "min_moving_avg", "category-scholar-!cn", "google@cn", "*", "+", "-", "--", "^x$", "a\\b", "a#b", "a=b", "50%", "$x", ".", "..", "0", "_", "must", "asis", "reject", "accept", "x!", "1a", "*.example.com", "a/*b*/c"}
	cQuotedVal = []string{"", " ", "http://cp.cloudflare.com,1.1.1.1,2606:4700:4700::1111", "ff00::/8", "02:42:ac:11:00:02", `\.goo.*\.com$`, "^yes", "udp://dns.alidns.com:53", "tuic://LINK -> vmess://LINK", "ExpireAt:", "a b", "a{b}c", "x -> y", "a && b", "!neg", "# not a comment", "/* not a comment */", "it's", `say "hi"`, "é中文", "line1\nline2", "tab\there", "a,b,c", "[anno]", "(p)", "k: v", "200 mbps", "50-100", "ss://LINK", "a\\b", "\x01ctl", "%s%d", "{{", "}}"}
)

func cpick(r *rand.Rand, p []string) string { return p[r.IntN(len(p))] }

func cGenLit(r *rand.Rand) CLit {
	switch r.IntN(10) {
	case 0, 1, 2, 3, 4:
		v := cpick(r, cBareVals)
		if v == "geosite:cn" { // contains ':' => not one bare token
			return MkLit(r, v, true)
		}
		return MkLit(r, v, false)
	case 5, 6, 7, 8:
		return MkLit(r, cpick(r, cQuotedVal), true)
	default:
		// random bare token from the lexer's character classes
		heads := "abzAZ_019*+-./\\^"
		rest := "abcxyzABC_0123456789!#$%*+-./=@\\^"
		n := r.IntN(8)
		b := []byte{heads[r.IntN(len(heads))]}
		for i := 0; i < n; i++ {
			b = append(b, rest[r.IntN(len(rest))])
		}
		v := string(b)
		if !CBareOK(v) {
			return MkLit(r, v, true)
		}
		return CLit{V: v}
	}
}

func cGenPars(r *rand.Rand, allowEmpty bool, d *CDoc) []CPar {
	n := 1 + r.IntN(3)
	if r.IntN(8) == 0 {
		n = 4 + r.IntN(6)
	}
	if allowEmpty && r.IntN(12) == 0 {
		d.MayReject = true
		return nil
	}
	var ps []CPar
	for i := 0; i < n; i++ {
		p := CPar{L: cGenLit(r)}
		if r.IntN(3) == 0 {
			p.Key = cpick(r, cKeys)
		}
		ps = append(ps, p)
	}
	return ps
}

func cGenFn(r *rand.Rand, d *CDoc) CFn {
	return CFn{Not: r.IntN(4) == 0, Name: cpick(r, cFuncs), Pars: cGenPars(r, true, d)}
}

func cGenFns(r *rand.Rand, d *CDoc) []CFn {
	n := 1
	switch r.IntN(8) {
	case 0, 1:
		n = 2
	case 2:
		n = 3
	case 3:
		n = 4 + r.IntN(4)
	}
	var fs []CFn
	for i := 0; i < n; i++ {
		fs = append(fs, cGenFn(r, d))
	}
	return fs
}

func cGenItem(r *rand.Rand, depth int, d *CDoc) *CItem {
	k := r.IntN(10)
	switch {
	case k <= 2:
		it := &CItem{Kind: CRule, Conds: cGenFns(r, d)}
		if r.IntN(2) == 0 {
			it.OutBare = true
			it.Out = CFn{Name: MkBareName(r)}
		} else {
			it.Out = cGenFn(r, d)
			if r.IntN(3) != 0 {
				it.Out.Not = false
			}
		}
		return it
	case k <= 4:
		it := &CItem{Kind: CDecl, Key: cpick(r, cKeys)}
		n := 1
		if r.IntN(4) == 0 {
			n = 2 + r.IntN(4)
		}
		for i := 0; i < n; i++ {
			it.Lits = append(it.Lits, cGenLit(r))
		}
		cGenAnno(r, it, d)
		return it
	case k <= 6:
		it := &CItem{Kind: CDeclFn, Key: cpick(r, cKeys), Fns: cGenFns(r, d)}
		cGenAnno(r, it, d)
		return it
	case k == 7:
		return &CItem{Kind: CLitIt, Lit: cGenLit(r)}
	default:
		if depth >= 3 {
			return &CItem{Kind: CLitIt, Lit: cGenLit(r)}
		}
		return &CItem{Kind: CSecIt, Sec: cGenSec(r, depth+1, d)}
	}
}

// MkBareName: a bare literal usable as outbound (ID or NON_ID).
func MkBareName(r *rand.Rand) string {
	for {
		v := cpick(r, cBareVals)
		if CBareOK(v) {
			return v
		}
	}
}

func cGenAnno(r *rand.Rand, it *CItem, d *CDoc) {
	if r.IntN(4) != 0 {
		return
	}
	it.HasAnno = true
	it.Anno = cGenPars(r, true, d)
}

func cGenSec(r *rand.Rand, depth int, d *CDoc) *CSec {
	s := &CSec{Name: cpick(r, cNames)}
	n := r.IntN(4)
	if r.IntN(8) == 0 {
		n = 4 + r.IntN(6)
	}
	if depth > 0 && n > 3 {
		n = 3
	}
	for i := 0; i < n; i++ {
		s.Items = append(s.Items, cGenItem(r, depth, d))
	}
	return s
}

// GenFreeDoc exercises every production of the grammar without regard to what
// the sections mean (config.New will reject most of these: that is part of the
// test).
func GenFreeDoc(r *rand.Rand) *CDoc {
	d := &CDoc{}
	n := 1 + r.IntN(3)
	switch r.IntN(12) {
	case 0:
		n = 0
	case 1:
		n = 4 + r.IntN(3)
	}
	for i := 0; i < n; i++ {
		d.Secs = append(d.Secs, cGenSec(r, 0, d))
	}
	return d
}

// ---- meaningful configurations ------------------------------------------------

// CfgMeta records what a generated valid configuration spells, for the typed checks.
type CfgMeta struct {
	Global   map[string]string // key -> value text as written (last occurrence wins is NOT used: keys are unique)
	Nodes    []string          // expected conf.Node entries ("tag:link" or "link")
	Subs     []string
	Groups   []string // group names in order
	NRules   int
	Fallback string // routing fallback name as written ("" = absent)
	Upstream []string
	HasDns   bool
}

type globalKey struct {
	key  string
	vals []string
}

var cGlobalKeys = []globalKey{
	{"tproxy_port", []string{"12345", "1", "65535"}},
	{"tproxy_port_protect", []string{"true", "false"}},
	{"pprof_port", []string{"0", "6060"}},
	{"so_mark_from_dae", []string{"0", "1", "0x800"}},
	{"log_level", []string{"info", "warn", "debug", "trace", "error"}},
	{"disable_waiting_network", []string{"false", "true"}},
	{"disable_thp", []string{"true", "false"}},
	{"lan_interface", []string{"docker0", "eth0,eth1", "br-lan"}},
	{"wan_interface", []string{"auto", "eth0", "eth0,wlan0"}},
	{"auto_config_kernel_parameter", []string{"true", "false"}},
	{"tcp_check_url", []string{"http://cp.cloudflare.com", "http://cp.cloudflare.com,1.1.1.1,2606:4700:4700::1111"}},
	{"tcp_check_http_method", []string{"HEAD", "GET", "CONNECT"}},
	{"udp_check_dns", []string{"dns.google:53", "dns.google:53,8.8.8.8,2001:4860:4860::8888"}},
	{"check_interval", []string{"30s", "600s", "1m30s", "500ms"}},
	{"check_tolerance", []string{"50ms", "1s"}},
	{"dial_mode", []string{"domain", "ip", "domain+", "domain++"}},
	{"allow_insecure", []string{"false", "true"}},
	{"sniffing_timeout", []string{"30ms", "100ms", "300ms"}},
	{"tls_implementation", []string{"tls", "utls"}},
	{"utls_imitate", []string{"chrome_auto", "firefox_auto"}},
	{"tls_fragment", []string{"false", "true"}},
	{"tls_fragment_length", []string{"50-100"}},
	{"tls_fragment_interval", []string{"10-20"}},
	{"mptcp", []string{"false", "true"}},
	{"bandwidth_max_tx", []string{"200 mbps", "25000000"}},
	{"bandwidth_max_rx", []string{"1 gbps", "0"}},
	{"fallback_resolver", []string{"8.8.8.8:53", "1.1.1.1:53"}},
}

func declLit(r *rand.Rand, key, val string) *CItem {
	it := &CItem{Kind: CDecl, Key: key}
	// a comma-joined value may also be written as a list of literals
	if strings.Contains(val, ",") && r.IntN(2) == 0 {
		for _, p := range strings.Split(val, ",") {
			it.Lits = append(it.Lits, MkLit(r, p, false))
		}
		return it
	}
	it.Lits = []CLit{MkLit(r, val, false)}
	return it
}

func rcondToFn(r *rand.Rand, c RCond) CFn {
	f := CFn{Not: c.Not, Name: c.Func}
	for _, p := range c.Params {
		f.Pars = append(f.Pars, CPar{Key: p.Key, L: MkLit(r, p.Val, false)})
	}
	return f
}

func routToItem(r *rand.Rand, o ROut) (CFn, bool) {
	f := CFn{Name: o.Name}
	if o.HasMark {
		f.Pars = append(f.Pars, CPar{Key: "mark", L: MkLit(r, o.MarkTxt, false)})
	}
	if o.MustPar {
		f.Pars = append(f.Pars, CPar{L: CLit{V: "must"}})
	}
	return f, len(f.Pars) == 0
}

// RProgToSec converts a routing program of the reference generator into a section.
func RProgToSec(r *rand.Rand, p *RProg, withFallback bool) *CSec {
	s := &CSec{Name: "routing"}
	for _, rl := range p.Rules {
		it := &CItem{Kind: CRule}
		for _, c := range rl.Conds {
			it.Conds = append(it.Conds, rcondToFn(r, c))
		}
		it.Out, it.OutBare = routToItem(r, rl.Out)
		s.Items = append(s.Items, it)
	}
	if withFallback {
		f, bare := routToItem(r, p.Fallback)
		if bare {
			s.Items = append(s.Items, &CItem{Kind: CDecl, Key: "fallback", Lits: []CLit{{V: f.Name}}})
		} else {
			s.Items = append(s.Items, &CItem{Kind: CDeclFn, Key: "fallback", Fns: []CFn{f}})
		}
	}
	return s
}

var (
	cNodeLinks = []string{"socks5://localhost:1080", "ss://LINK", "vmess://LINK", "tuic://LINK -> vmess://LINK", "hysteria2://password@server-ip:443/?sni=domain"}
	cSubLinks  = []string{"https://www.example.com/subscription/link", "file://relative/path/to/mysub.sub", "https-file://www.example.com/persist_sub/link"}
	cUpstreams = []string{"udp://dns.alidns.com:53", "tcp+udp://dns.google:53", "tcp://1.1.1.1:53", "https://dns.alidns.com:443", "tls://dns.alidns.com:853", "udp://223.5.5.5:53"}
	cPolicies  = []string{"min_moving_avg", "min_avg10", "min", "random"}
)

// GenConfigDoc produces a configuration that the documentation says is valid.
func GenConfigDoc(r *rand.Rand, rg *RGen) (*CDoc, *CfgMeta) {
	d := &CDoc{}
	m := &CfgMeta{Global: map[string]string{}}
	// global
	g := &CSec{Name: "global"}
	perm := r.Perm(len(cGlobalKeys))
	nk := r.IntN(8)
	if r.IntN(6) == 0 {
		nk = len(perm)
	}
	for _, i := range perm[:nk] {
		k := cGlobalKeys[i]
		v := k.vals[r.IntN(len(k.vals))]
		g.Items = append(g.Items, declLit(r, k.key, v))
		m.Global[k.key] = v
	}
	// groups
	ngroups := len(rg.Groups)
	grp := &CSec{Name: "group"}
	for i := 0; i < ngroups; i++ {
		gs := &CSec{Name: rg.Groups[i]}
		nf := r.IntN(3)
		for j := 0; j < nf; j++ {
			it := &CItem{Kind: CDeclFn, Key: "filter"}
			it.Fns = append(it.Fns, CFn{Name: "name", Pars: []CPar{{L: MkLit(r, "node"+strconv.Itoa(r.IntN(4)), false)}}})
			if r.IntN(3) == 0 {
				it.Fns = append(it.Fns, CFn{Not: true, Name: "name", Pars: []CPar{{Key: "keyword", L: MkLit(r, "ExpireAt:", true)}}})
			}
			if r.IntN(3) == 0 {
				it.Fns = append([]CFn{{Name: "subtag", Pars: []CPar{{L: CLit{V: "my_sub"}}}}}, it.Fns...)
			}
			if r.IntN(3) == 0 {
				it.HasAnno = true
				it.Anno = []CPar{{Key: "add_latency", L: MkLit(r, []string{"-500ms", "100ms", "1s"}[r.IntN(3)], false)}}
			}
			gs.Items = append(gs.Items, it)
		}
		if r.IntN(4) == 0 {
			gs.Items = append(gs.Items, &CItem{Kind: CDeclFn, Key: "policy", Fns: []CFn{{Name: "fixed", Pars: []CPar{{L: CLit{V: strconv.Itoa(r.IntN(3))}}}}}})
		} else {
			gs.Items = append(gs.Items, declLit(r, "policy", cpick(r, cPolicies)))
		}
		if r.IntN(4) == 0 {
			gs.Items = append(gs.Items, declLit(r, "tcp_check_url", "http://test.steampowered.com"))
		}
		// item order inside a group is free
		r.Shuffle(len(gs.Items), func(a, b int) { gs.Items[a], gs.Items[b] = gs.Items[b], gs.Items[a] })
		grp.Items = append(grp.Items, &CItem{Kind: CSecIt, Sec: gs})
		m.Groups = append(m.Groups, gs.Name)
	}
	// node / subscription
	node := &CSec{Name: "node"}
	for i, n := 0, r.IntN(4); i < n; i++ {
		link := cpick(r, cNodeLinks)
		if r.IntN(3) == 0 {
			node.Items = append(node.Items, &CItem{Kind: CLitIt, Lit: MkLit(r, link, true)})
			m.Nodes = append(m.Nodes, link)
		} else {
			tag := "node" + strconv.Itoa(i)
			node.Items = append(node.Items, &CItem{Kind: CDecl, Key: tag, Lits: []CLit{MkLit(r, link, true)}})
			m.Nodes = append(m.Nodes, tag+":"+link)
		}
	}
	sub := &CSec{Name: "subscription"}
	for i, n := 0, r.IntN(3); i < n; i++ {
		link := cpick(r, cSubLinks)
		if r.IntN(3) == 0 {
			sub.Items = append(sub.Items, &CItem{Kind: CLitIt, Lit: MkLit(r, link, true)})
			m.Subs = append(m.Subs, link)
		} else {
			tag := []string{"my_sub", "another_sub", "persist_sub"}[i]
			sub.Items = append(sub.Items, &CItem{Kind: CDecl, Key: tag, Lits: []CLit{MkLit(r, link, true)}})
			m.Subs = append(m.Subs, tag+":"+link)
		}
	}
	// routing
	prog := rg.Gen()
	withFb := r.IntN(6) != 0
	rt := RProgToSec(r, prog, withFb)
	m.NRules = len(prog.Rules)
	if withFb {
		m.Fallback = prog.Fallback.Name
	}
	// dns
	var dns *CSec
	if r.IntN(4) != 0 {
		m.HasDns = true
		dns = &CSec{Name: "dns"}
		if r.IntN(3) == 0 {
			dns.Items = append(dns.Items, declLit(r, "ipversion_prefer", []string{"4", "6", "0"}[r.IntN(3)]))
		}
		if r.IntN(3) == 0 {
			fd := &CSec{Name: "fixed_domain_ttl"}
			fd.Items = append(fd.Items, &CItem{Kind: CDecl, Key: "ddns.example.org", Lits: []CLit{{V: "10"}}})
			if r.IntN(2) == 0 {
				fd.Items = append(fd.Items, &CItem{Kind: CDecl, Key: "test.example.org", Lits: []CLit{{V: "3600"}}})
			}
			dns.Items = append(dns.Items, &CItem{Kind: CSecIt, Sec: fd})
		}
		up := &CSec{Name: "upstream"}
		nu := 1 + r.IntN(3)
		for i := 0; i < nu; i++ {
			tag := []string{"alidns", "googledns", "cf"}[i]
			link := cpick(r, cUpstreams)
			up.Items = append(up.Items, &CItem{Kind: CDecl, Key: tag, Lits: []CLit{MkLit(r, link, true)}})
			m.Upstream = append(m.Upstream, tag+":"+link)
		}
		dns.Items = append(dns.Items, &CItem{Kind: CSecIt, Sec: up})
		upn := func() string { return []string{"alidns", "googledns", "cf"}[r.IntN(nu)] }
		rs := &CSec{Name: "routing"}
		if r.IntN(5) != 0 {
			req := &CSec{Name: "request"}
			for i, n := 0, r.IntN(5); i < n; i++ {
				it := &CItem{Kind: CRule, OutBare: true}
				switch r.IntN(4) {
				case 0:
					it.Conds = []CFn{{Name: "qtype", Pars: []CPar{{L: CLit{V: cpick(r, []string{"a", "aaaa", "cname", "https", "28"})}}}}}
				case 1:
					it.Conds = []CFn{{Name: "qname", Not: r.IntN(4) == 0, Pars: []CPar{{Key: "suffix", L: MkLit(r, cpick(r, PoolDomSuffix), false)}, {Key: "keyword", L: MkLit(r, cpick(r, PoolDomKeyword), false)}}}}
				case 2:
					it.Conds = []CFn{{Name: "qname", Pars: []CPar{{Key: "full", L: MkLit(r, cpick(r, PoolDomFull), false)}, {Key: "regex", L: MkLit(r, cpick(r, PoolDomRegex), true)}}}}
				default:
					it.Conds = []CFn{{Name: "qname", Pars: []CPar{{Key: "suffix", L: MkLit(r, cpick(r, PoolDomSuffix), false)}}}, {Name: "qtype", Pars: []CPar{{L: CLit{V: "a"}}, {L: CLit{V: "aaaa"}}}}}
				}
				it.Out = CFn{Name: cpick(r, []string{"asis", "reject", upn(), upn()})}
				req.Items = append(req.Items, it)
			}
			req.Items = append(req.Items, &CItem{Kind: CDecl, Key: "fallback", Lits: []CLit{{V: cpick(r, []string{"asis", upn()})}}})
			rs.Items = append(rs.Items, &CItem{Kind: CSecIt, Sec: req})
		}
		if r.IntN(3) != 0 {
			resp := &CSec{Name: "response"}
			for i, n := 0, r.IntN(4); i < n; i++ {
				it := &CItem{Kind: CRule, OutBare: true}
				switch r.IntN(4) {
				case 0:
					it.Conds = []CFn{{Name: "upstream", Pars: []CPar{{L: CLit{V: upn()}}}}}
				case 1:
					it.Conds = []CFn{{Name: "ip", Not: r.IntN(3) == 0, Pars: []CPar{{L: MkLit(r, cpick(r, PoolPrefix4), false)}, {L: MkLit(r, cpick(r, PoolPrefix6), false)}}}}
				case 2:
					it.Conds = []CFn{{Name: "qname", Not: true, Pars: []CPar{{Key: "keyword", L: MkLit(r, cpick(r, PoolDomKeyword), false)}}}, {Name: "ip", Pars: []CPar{{L: MkLit(r, "10.0.0.0/8", false)}}}}
				default:
					it.Conds = []CFn{{Name: "qtype", Pars: []CPar{{L: CLit{V: "aaaa"}}}}}
				}
				it.Out = CFn{Name: cpick(r, []string{"accept", "reject", upn()})}
				resp.Items = append(resp.Items, it)
			}
			resp.Items = append(resp.Items, &CItem{Kind: CDecl, Key: "fallback", Lits: []CLit{{V: "accept"}}})
			rs.Items = append(rs.Items, &CItem{Kind: CSecIt, Sec: resp})
		}
		dns.Items = append(dns.Items, &CItem{Kind: CSecIt, Sec: rs})
		r.Shuffle(len(dns.Items), func(a, b int) { dns.Items[a], dns.Items[b] = dns.Items[b], dns.Items[a] })
	}
	d.Secs = []*CSec{g, sub, node, grp, rt}
	if dns != nil {
		d.Secs = append(d.Secs, dns)
	}
	// optional sections may be absent when empty; section order is free
	var keep []*CSec
	for _, s := range d.Secs {
		if len(s.Items) == 0 && s.Name != "global" && s.Name != "routing" && r.IntN(2) == 0 {
			continue
		}
		keep = append(keep, s)
	}
	d.Secs = keep
	r.Shuffle(len(d.Secs), func(a, b int) { d.Secs[a], d.Secs[b] = d.Secs[b], d.Secs[a] })
	return d, m
}

func (d *CDoc) Find(name string) *CSec {
	for _, s := range d.Secs {
		if s.Name == name {
			return s
		}
	}
	return nil
}

func (s *CSec) sub(name string) *CSec {
	for _, it := range s.Items {
		if it.Kind == CSecIt && it.Sec.Name == name {
			return it.Sec
		}
	}
	return nil
}

func (s *CSec) insert(r *rand.Rand, it *CItem) {
	i := r.IntN(len(s.Items) + 1)
	s.Items = append(s.Items, nil)
	copy(s.Items[i+1:], s.Items[i:])
	s.Items[i] = it
}

func (s *CSec) dropKey(key string) bool {
	for i, it := range s.Items {
		if (it.Kind == CDecl || it.Kind == CDeclFn) && it.Key == key {
			s.Items = append(s.Items[:i], s.Items[i+1:]...)
			return true
		}
	}
	return false
}

// RejectKinds lists the semantic defects MutateReject can plant. Each makes a
// syntactically valid text that the typed-configuration stage must refuse.
var RejectKinds = []string{
	"unknown-section", "unknown-key-global", "unknown-key-group", "unknown-key-dns", "unknown-key-routing",
	"unknown-subsection-dns", "unknown-subsection-global",
	"missing-section-global", "missing-section-routing", "missing-group-policy", "missing-dns-request-fallback",
	"wrong-type-port-word", "wrong-type-port-range", "wrong-type-bool", "wrong-type-duration-word",
	"wrong-type-port-negative", "wrong-type-int-word", "wrong-type-mark-overflow",
	"keyless-text-in-global", "rule-in-global", "function-for-scalar", "section-for-scalar", "param-for-group",
}

// MutateReject plants defect kind into a valid configuration doc (in place).
// Returns false if the doc has no place for it.
func MutateReject(r *rand.Rand, d *CDoc, kind string) bool {
	g := d.Find("global")
	rt := d.Find("routing")
	dns := d.Find("dns")
	grp := d.Find("group")
	setGlobal := func(key, val string) bool {
		g.dropKey(key)
		g.insert(r, &CItem{Kind: CDecl, Key: key, Lits: []CLit{MkLit(r, val, false)}})
		return true
	}
	dropSec := func(name string) bool {
		for i, s := range d.Secs {
			if s.Name == name {
				d.Secs = append(d.Secs[:i], d.Secs[i+1:]...)
				return true
			}
		}
		return false
	}
	firstGroup := func() *CSec {
		if grp == nil {
			return nil
		}
		for _, it := range grp.Items {
			if it.Kind == CSecIt {
				return it.Sec
			}
		}
		return nil
	}
	switch kind {
	case "unknown-section":
		s := &CSec{Name: cpick(r, []string{"globall", "route", "foo", "Global", "dns2", "groups", "ROUTING"})}
		if r.IntN(2) == 0 {
			s.Items = append(s.Items, &CItem{Kind: CDecl, Key: "a", Lits: []CLit{{V: "b"}}})
		}
		i := r.IntN(len(d.Secs) + 1)
		d.Secs = append(d.Secs, nil)
		copy(d.Secs[i+1:], d.Secs[i:])
		d.Secs[i] = s
		return true
	case "unknown-key-global":
		g.insert(r, &CItem{Kind: CDecl, Key: cpick(r, []string{"no_such_key", "tproxy_ports", "Log_level", "so_mark_from_dae_set", "loglevel"}), Lits: []CLit{{V: "1"}}})
		return true
	case "unknown-key-group":
		gs := firstGroup()
		if gs == nil {
			return false
		}
		gs.insert(r, &CItem{Kind: CDecl, Key: "no_such_key", Lits: []CLit{{V: "x"}}})
		return true
	case "unknown-key-dns":
		if dns == nil {
			return false
		}
		dns.insert(r, &CItem{Kind: CDecl, Key: "no_such_key", Lits: []CLit{{V: "x"}}})
		return true
	case "unknown-key-routing":
		rt.insert(r, &CItem{Kind: CDecl, Key: cpick(r, []string{"no_such_key", "fall_back", "default"}), Lits: []CLit{{V: "direct"}}})
		return true
	case "unknown-subsection-dns":
		if dns == nil {
			return false
		}
		dns.insert(r, &CItem{Kind: CSecIt, Sec: &CSec{Name: "no_such_section"}})
		return true
	case "unknown-subsection-global":
		g.insert(r, &CItem{Kind: CSecIt, Sec: &CSec{Name: "no_such_section", Items: []*CItem{{Kind: CDecl, Key: "a", Lits: []CLit{{V: "b"}}}}}})
		return true
	case "missing-section-global":
		return dropSec("global")
	case "missing-section-routing":
		return dropSec("routing")
	case "missing-group-policy":
		gs := firstGroup()
		if gs == nil {
			return false
		}
		return gs.dropKey("policy")
	case "missing-dns-request-fallback":
		if dns == nil {
			return false
		}
		rs := dns.sub("routing")
		if rs == nil {
			return false
		}
		rq := rs.sub("request")
		if rq == nil {
			return false
		}
		return rq.dropKey("fallback")
	case "wrong-type-port-word":
		return setGlobal("tproxy_port", cpick(r, []string{"abc", "12345x", "http", "1.5"}))
	case "wrong-type-port-range":
		return setGlobal("tproxy_port", cpick(r, []string{"65536", "70000", "4294967296"}))
	case "wrong-type-port-negative":
		return setGlobal("pprof_port", "-1")
	case "wrong-type-bool":
		return setGlobal(cpick(r, []string{"allow_insecure", "tls_fragment", "mptcp"}), cpick(r, []string{"maybe", "2", "tru", "nope"}))
	case "wrong-type-duration-word":
		return setGlobal("check_interval", cpick(r, []string{"abc", "soon", "s", "30x"}))
	case "wrong-type-int-word":
		if dns == nil {
			return false
		}
		dns.dropKey("ipversion_prefer")
		dns.insert(r, &CItem{Kind: CDecl, Key: "ipversion_prefer", Lits: []CLit{{V: cpick(r, []string{"four", "ipv4", "4.0"})}}})
		return true
	case "wrong-type-mark-overflow":
		return setGlobal("so_mark_from_dae", cpick(r, []string{"0x1ffffffff", "4294967296"}))
	case "keyless-text-in-global":
		g.insert(r, &CItem{Kind: CLitIt, Lit: MkLit(r, cpick(r, []string{"justtext", "12345", "a value"}), false)})
		return true
	case "rule-in-global":
		g.insert(r, &CItem{Kind: CRule, Conds: []CFn{{Name: "dport", Pars: []CPar{{L: CLit{V: "80"}}}}}, OutBare: true, Out: CFn{Name: "direct"}})
		return true
	case "function-for-scalar":
		g.dropKey("tproxy_port")
		g.insert(r, &CItem{Kind: CDeclFn, Key: "tproxy_port", Fns: []CFn{{Name: "f", Pars: []CPar{{L: CLit{V: "12345"}}}}}})
		return true
	case "section-for-scalar":
		g.dropKey("log_level")
		g.insert(r, &CItem{Kind: CSecIt, Sec: &CSec{Name: "log_level", Items: []*CItem{{Kind: CLitIt, Lit: CLit{V: "info"}}}}})
		return true
	case "param-for-group":
		if grp == nil {
			return false
		}
		grp.insert(r, &CItem{Kind: CDecl, Key: "x", Lits: []CLit{{V: "y"}}})
		return true
	}
	panic("unknown reject kind " + kind)
}

// ---- near-misses ----------------------------------------------------------------

var CMutAlphabet = []string{"{", "}", "(", ")", "[", "]", ":", ",", "->", "&&", "!", "'", "\""}

// MutateTokens applies n token-level edits; the description of the edits is
// returned for the witness.
func MutateTokens(r *rand.Rand, toks []CTok, n int) ([]CTok, []string) {
	out := append([]CTok(nil), toks...)
	var desc []string
	for k := 0; k < n; k++ {
		if len(out) == 0 {
			out = append(out, pt(cpick(r, CMutAlphabet)))
			continue
		}
		i := r.IntN(len(out))
		switch op := r.IntN(7); op {
		case 0: // delete
			desc = append(desc, fmt.Sprintf("delete#%d(%s)", i, out[i].T))
			out = append(out[:i], out[i+1:]...)
		case 1: // duplicate
			desc = append(desc, fmt.Sprintf("dup#%d(%s)", i, out[i].T))
			out = append(out[:i+1], append([]CTok{out[i]}, out[i+1:]...)...)
		case 2: // swap adjacent
			if i+1 < len(out) {
				desc = append(desc, fmt.Sprintf("swap#%d(%s,%s)", i, out[i].T, out[i+1].T))
				out[i], out[i+1] = out[i+1], out[i]
			}
		case 3: // swap distant
			j := r.IntN(len(out))
			desc = append(desc, fmt.Sprintf("swap#%d#%d", i, j))
			out[i], out[j] = out[j], out[i]
		case 4: // insert
			t := cpick(r, CMutAlphabet)
			desc = append(desc, fmt.Sprintf("insert#%d(%s)", i, t))
			out = append(out[:i], append([]CTok{pt(t)}, out[i:]...)...)
		case 5: // replace
			t := cpick(r, CMutAlphabet)
			desc = append(desc, fmt.Sprintf("replace#%d(%s=>%s)", i, out[i].T, t))
			out[i] = pt(t)
		case 6: // truncate
			desc = append(desc, fmt.Sprintf("truncate#%d", i))
			out = out[:i]
		}
	}
	return out, desc
}

// SingleEdits enumerates EVERY single-token deletion, duplication, adjacent
// swap and alphabet insertion of a token list.
func SingleEdits(toks []CTok) (res [][]CTok, desc []string) {
	cp := func() []CTok { return append([]CTok(nil), toks...) }
	for i := range toks {
		o := cp()
		res = append(res, append(o[:i], o[i+1:]...))
		desc = append(desc, fmt.Sprintf("delete#%d(%s)", i, toks[i].T))
		o = cp()
		res = append(res, append(o[:i+1], append([]CTok{toks[i]}, o[i+1:]...)...))
		desc = append(desc, fmt.Sprintf("dup#%d(%s)", i, toks[i].T))
		if i+1 < len(toks) {
			o = cp()
			o[i], o[i+1] = o[i+1], o[i]
			res = append(res, o)
			desc = append(desc, fmt.Sprintf("swap#%d(%s,%s)", i, toks[i].T, toks[i+1].T))
		}
	}
	for i := 0; i <= len(toks); i++ {
		for _, a := range CMutAlphabet {
			o := cp()
			res = append(res, append(o[:i], append([]CTok{pt(a)}, o[i:]...)...))
			desc = append(desc, fmt.Sprintf("insert#%d(%s)", i, a))
		}
	}
	return
}

// NearMissBases are small valid texts whose complete single-edit
// neighbourhoods are explored.
var NearMissBases = []string{
	"routing { dip ( 1.1.1.1 ) -> direct fallback : direct }",
	"routing { dip ( 1.1.1.1 ) -> direct ( must ) fallback : block }",
	"routing { ! domain ( suffix : a.com , 'b.com' ) && dport ( 80 ) -> g ( mark : 0x800 , must ) }",
	"global { tproxy_port : 12345 lan_interface : a , b }",
	"group { g { filter : name ( a ) && ! name ( keyword : 'b' ) [ add_latency : -500ms ] policy : fixed ( 0 ) } }",
	"group { g { policy : min [ x ] } }",
	"node { 'socks5://h:1' n1 : 'ss://L' }",
	"dns { upstream { a : 'udp://1.1.1.1:53' } routing { request { qname ( x ) -> a fallback : asis } } }",
	"include { config.d/*.dae } a { b { c { } } }",
	"a { k : f ( x ) }",
	"a { k : v }",
	"a { f ( x ) -> o }",
}

// SplitSimple splits a base text written with single spaces between tokens.
func SplitSimple(s string) []CTok {
	var out []CTok
	for _, f := range strings.Fields(s) {
		k := byte('b')
		switch {
		case f[0] == '\'' || f[0] == '"':
			k = 'q'
		case len(f) <= 2 && strings.Contains("{ } ( ) [ ] : , -> && !", f):
			k = 'p'
		}
		out = append(out, CTok{f, k})
	}
	return out
}

// JoinSimple joins tokens with single spaces (every pair separated: a removed
// separator is a different experiment, done by the byte-level generator).
func JoinSimple(toks []CTok) string {
	var l []string
	for _, t := range toks {
		l = append(l, t.T)
	}
	return strings.Join(l, " ")
}

// ---- arbitrary bytes -----------------------------------------------------------

var cSoup = []string{"{", "}", "(", ")", "[", "]", ":", ",", "->", "&&", "!", "'", "\"", " ", "\n", "\t", "#", "/*", "*/", "a", "routing", "global", "fallback", "direct", "dip", "domain", "1.1.1.1", "'x'", "\"y\"", "-", ">", "&", "\\", "\x00", "\xff", "\xc3", "\xe4\xb8", "é", "\ufeff", "\r", "0", "policy", "filter", "geosite:cn", "::", "//", "=", "@", "$", "`", ";", "|", "~", "<", "?", "%"}

// GenBytes: arbitrary inputs of several flavours.
func GenBytes(r *rand.Rand, valid string) (string, string) {
	switch r.IntN(6) {
	case 0: // uniform random bytes
		n := 1 + r.IntN(200)
		b := make([]byte, n)
		for i := range b {
			b[i] = byte(r.IntN(256))
		}
		return string(b), "uniform"
	case 1, 2: // token soup
		n := 1 + r.IntN(60)
		var sb strings.Builder
		for i := 0; i < n; i++ {
			sb.WriteString(cSoup[r.IntN(len(cSoup))])
			if r.IntN(3) == 0 {
				sb.WriteByte(' ')
			}
		}
		return sb.String(), "soup"
	case 3: // valid text with byte edits
		b := []byte(valid)
		for k, n := 0, 1+r.IntN(4); k < n && len(b) > 0; k++ {
			i := r.IntN(len(b))
			switch r.IntN(4) {
			case 0:
				b[i] = byte(r.IntN(256))
			case 1:
				b = append(b[:i], b[i+1:]...)
			case 2:
				b = append(b[:i], append([]byte(cSoup[r.IntN(len(cSoup))]), b[i:]...)...)
			case 3:
				b[i] ^= 1 << uint(r.IntN(8))
			}
		}
		return string(b), "byte-edit"
	case 4: // valid text truncated at a random byte
		if len(valid) == 0 {
			return "", "truncate"
		}
		return valid[:r.IntN(len(valid))], "truncate"
	default: // printable ASCII noise
		n := 1 + r.IntN(120)
		b := make([]byte, n)
		for i := range b {
			b[i] = byte(32 + r.IntN(95))
			if r.IntN(12) == 0 {
				b[i] = '\n'
			}
		}
		return string(b), "ascii"
	}
}

// StressTexts: large but regular inputs (depth / length extremes).
func StressTexts(scale int) map[string]string {
	rep := strings.Repeat
	m := map[string]string{}
	m["nest-sections"] = rep("a { ", scale) + rep("} ", scale)
	m["nest-sections-unclosed"] = rep("a { ", scale)
	m["and-chain"] = "routing { " + rep("dport(1) && ", scale) + "dport(2) -> direct }"
	m["param-list"] = "routing { dport(" + rep("1, ", scale*2) + "2) -> direct }"
	m["literal-list"] = "global { lan_interface: " + rep("a, ", scale*2) + "b }"
	m["many-items"] = "node { " + rep("'x' ", scale*2) + "}"
	m["many-sections"] = rep("a { } ", scale*2)
	m["long-bare"] = "a { " + rep("x", scale*40) + " }"
	m["long-quoted"] = "a { '" + rep("x", scale*40) + "' }"
	m["unterminated-quote"] = "a { '" + rep("x ", scale)
	m["unterminated-comment"] = "a { /* " + rep("x ", scale)
	m["open-parens"] = "routing { " + rep("f(", scale)
	m["open-brackets"] = "a { k: v " + rep("[", scale)
	m["bangs"] = "routing { " + rep("! ", scale) + "f(x) -> y }"
	m["arrows"] = "routing { f(x) " + rep("-> y ", scale) + "}"
	m["empty"] = ""
	m["only-space"] = rep(" \n\t", scale)
	m["only-comment"] = "# " + rep("x", scale)
	m["nul"] = rep("\x00", scale)
	m["bom"] = "\ufeffglobal {} routing {}"
	return m
}

// ---- size ladder -----------------------------------------------------------------

// LadderText builds a configuration whose compiled rule program has about n
// match sets in `where` ("routing" | "dns-request" | "dns-response"), with a
// condition of kind tail at the very end. Rules alternate outbounds and use
// two-condition chains so that no documented optimisation can merge them.
func LadderText(where string, n int, tail string) string {
	var sb strings.Builder
	tailCond := map[string]string{
		"domain-suffix":  "domain(suffix: tail.example.com)",
		"domain-full":    "domain(full: tail.example.com)",
		"domain-keyword": "domain(keyword: tailkw)",
		"domain-regex":   "domain(regex: '^tail[0-9]+$')",
		"dip":            "dip(203.0.113.0/24)",
		"sip":            "sip(198.51.100.7)",
		"dip6":           "dip('2001:db8:ffff::/48')",
		"dport":          "dport(65000-65001)",
		"sport":          "sport(64000)",
		"mac":            "mac('02:42:ac:11:ff:ff')",
		"pname":          "pname(tailproc)",
		"l4proto":        "l4proto(udp)",
		"qname-suffix":   "qname(suffix: tail.example.com)",
		"qname-keyword":  "qname(keyword: tailkw)",
		"qname-regex":    "qname(regex: '^tail[0-9]+$')",
		"qname-full":     "qname(full: tail.example.com)",
		"qtype":          "qtype(aaaa)",
		"ip":             "ip(203.0.113.0/24)",
		"upstream":       "upstream(u0)",
	}[tail]
	if tailCond == "" {
		panic("LadderText: unknown tail " + tail)
	}
	switch where {
	case "routing":
		sb.WriteString("global {}\nrouting {\n")
		// n match sets = 2*k (chains) + 1 (tail) + 1 (fallback)
		k := (n - 2) / 2
		for i := 0; i < k; i++ {
			fmt.Fprintf(&sb, "  dport(%d) && sport(%d) -> %s\n", 1000+i, 2000+i, []string{"direct", "block"}[i%2])
		}
		if (n-2)%2 == 1 {
			sb.WriteString("  l4proto(tcp) -> block\n")
		}
		fmt.Fprintf(&sb, "  %s -> direct\n  fallback: block\n}\n", tailCond)
	case "dns-request":
		sb.WriteString("global {}\nrouting {}\ndns {\n upstream { u0: 'udp://1.1.1.1:53' u1: 'udp://8.8.8.8:53' }\n routing { request {\n")
		k := (n - 2) / 2
		for i := 0; i < k; i++ {
			fmt.Fprintf(&sb, "  qname(full: h%d.example.org) && qtype(a) -> %s\n", i, []string{"u0", "u1"}[i%2])
		}
		if (n-2)%2 == 1 {
			sb.WriteString("  qtype(cname) -> reject\n")
		}
		fmt.Fprintf(&sb, "  %s -> u0\n  fallback: asis\n } }\n}\n", tailCond)
	case "dns-response":
		sb.WriteString("global {}\nrouting {}\ndns {\n upstream { u0: 'udp://1.1.1.1:53' u1: 'udp://8.8.8.8:53' }\n routing { response {\n")
		k := (n - 2) / 2
		for i := 0; i < k; i++ {
			fmt.Fprintf(&sb, "  qname(full: h%d.example.org) && qtype(a) -> %s\n", i, []string{"u0", "u1"}[i%2])
		}
		if (n-2)%2 == 1 {
			sb.WriteString("  qtype(cname) -> reject\n")
		}
		fmt.Fprintf(&sb, "  %s -> u0\n  fallback: accept\n } }\n}\n", tailCond)
	default:
		panic("LadderText: unknown builder " + where)
	}
	return sb.String()
}
